#!/bin/bash
# usage: seed_r6.sh Cxx [check ids...] - collect round-6 deliverables from /tmp/wt6_Cxx/_seed, then demo both ways + checks on a scratch export
c=$1; shift; checks="${@:-$c}"
src=/tmp/wt6_$c/_seed; dst=/verif/seeded/${c}r6
mkdir -p $dst
for f in patch.diff demo.py notes.md; do cp $src/$f $dst/ || echo "missing $f"; done
echo "agent suite: $(grep -h -E 'passed|failed|error' $src/suite*.txt 2>/dev/null | tail -1)"
for k in $checks; do /verif/seed_try.sh ${c}r6 $k; done
