#!/bin/bash
# usage: seed_collect.sh Cxx rN  - copy an agent's deliverables from /tmp/wt_Cxx/_seed into /verif/seeded/CxxrN
c=$1; r=$2; src=/tmp/wt_$c/_seed; dst=/verif/seeded/$c$r
mkdir -p $dst
for f in patch.diff demo.py notes.md; do cp $src/$f $dst/ || echo "missing $f"; done
ls $src; grep -h -E "passed|failed" $src/suite*.txt 2>/dev/null | tail -2
