#!/bin/bash
# Runs every registered check (default tier quick) sequentially; prints one line per property.
TIER="${1:-quick}"
cd "$(dirname "$0")"
for p in $(python3 -c "import json;print(' '.join(c['property_id'] for c in json.load(open('MANIFEST.json'))['checks']))"); do
  s=$(date +%s)
  ./vcheck "$p" --tier "$TIER" > ".work_$p.log" 2>&1; rc=$?
  e=$(date +%s)
  echo "$p rc=$rc $((e-s))s $(grep -c '^VIOLATION' .work_$p.log) violations; $(grep -c '^INCONCLUSIVE' .work_$p.log) inconclusive; $(grep -c '^HARNESS-ERROR' .work_$p.log) harness errors; $(grep -c '^KNOWN-FINDING' .work_$p.log) known"
done
