#!/bin/bash
# usage: seed_r5.sh Cxx [check ids...] - collect round-5 deliverables from /tmp/wt5_Cxx/_seed, then demo both ways + checks on a scratch export
c=$1; shift; checks="${@:-$c}"
src=/tmp/wt5_$c/_seed; dst=/verif/seeded/${c}r5
mkdir -p $dst
for f in patch.diff demo.py notes.md; do cp $src/$f $dst/ || echo "missing $f"; done
grep -h -E "passed|failed" $src/suite*.txt 2>/dev/null | tail -1
for k in $checks; do /verif/seed_try.sh ${c}r5 $k; done
