#!/bin/bash
# Regression over the seeded mutants: every seed must make its check exit 1 (VIOLATION).  Works on scratch exports of
# /repo HEAD (never touches /repo): the tree under analysis is selected with VF_REPO_SRC.
# usage: seed_regress.sh [seed dir names...]   (default: all)      env: PAR (parallel seeds, default 4)
cd "$(dirname "$0")"
seeds="${@:-$(ls seeded)}"
PAR=${PAR:-4}
run_one() {
  s=$1
  if python3 -c "import json,sys;sys.exit(0 if json.load(open('seeded/$s/meta.json')).get('retired') else 1)"; then echo "$s retired (see meta.json)"; return; fi
  c=$(python3 -c "import json;print(json.load(open('seeded/$s/meta.json'))['caught_by']['check'])")
  tmp=$(mktemp -d /tmp/seedreg_XXXX)
  git -C /repo archive HEAD src/dliswriter | tar -x -C $tmp
  if ! (cd $tmp && patch -p1 -s < /verif/seeded/$s/patch.diff) ; then echo "$s PATCH-DOES-NOT-APPLY"; rm -rf $tmp; return; fi
  mkdir -p $tmp/evidence
  VF_REPO_SRC=$tmp/src VF_EVIDENCE_DIR=$tmp/evidence VF_JOBS=4 ./vcheck $c > $tmp/log 2>&1; rc=$?
  echo "$s check=$c rc=$rc $(grep -c '^VIOLATION' $tmp/log) violations $(grep -m1 '^VIOLATION' $tmp/log | sed 's/.*replays\///')"
  rm -rf $tmp
}
export -f run_one
printf '%s\n' $seeds | xargs -P $PAR -I{} bash -c 'run_one {}'
