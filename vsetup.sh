#!/bin/bash
# Build the overlay virtualenv used by every check: /venv's packages (numpy, h5py, dliswriter deps) +
# crosshair-tool / z3-solver / cvc5 / jsonschema from the offline wheelhouse.  Idempotent, flock-ed, offline.
set -euo pipefail
HERE="$(cd "$(dirname "$0")" && pwd)"
VENV="$HERE/.venv"
LOCK="$HERE/.venv.lock"
STAMP="$VENV/.vf_ready_v2"
export PIP_NO_INDEX=1 PIP_DISABLE_PIP_VERSION_CHECK=1

exec 9>"$LOCK"
flock 9
if [ -f "$STAMP" ] && "$VENV/bin/python" -c "import crosshair, z3" >/dev/null 2>&1; then
  exit 0
fi
rm -rf "$VENV"
/venv/bin/python -m venv "$VENV"
SP="$("$VENV/bin/python" -c 'import sysconfig; print(sysconfig.get_paths()["purelib"])')"
# /venv is itself a virtualenv, so --system-site-packages would skip it: add it (and the repo sources) by .pth.
printf '%s\n%s\n' "/venv/lib/python3.12/site-packages" "/repo/src" > "$SP/vf_overlay.pth"
"$VENV/bin/pip" install -q --no-index --find-links /opt/veriftools/wheels crosshair-tool z3-solver cvc5 jsonschema >/dev/null
"$VENV/bin/python" -c "import crosshair, z3, numpy, dliswriter"
touch "$STAMP"
