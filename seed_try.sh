#!/bin/bash
# usage: seed_try.sh <seed dir name> <check id> - demo both ways + one check against a scratch export with the patch (never touches /repo)
s=$1; c=$2; only=${3:+--only $3}; d=/verif/seeded/$s
tmp=$(mktemp -d /tmp/seedtry_XXXX)
git -C /repo archive HEAD src/dliswriter | tar -x -C $tmp
orig=$(cd $tmp && PYTHONPATH=$tmp/src timeout 900 /venv/bin/python $d/demo.py 2>&1 | tail -1)
(cd $tmp && patch -p1 -s < $d/patch.diff) || echo "$s PATCH FAILED"
mut=$(cd $tmp && PYTHONPATH=$tmp/src timeout 900 /venv/bin/python $d/demo.py 2>&1 | tail -1)
mkdir -p $tmp/evidence
st=$(date +%s)
VF_REPO_SRC=$tmp/src VF_EVIDENCE_DIR=$tmp/evidence VF_JOBS=${VF_JOBS:-4} /verif/vcheck $c $only > $tmp/log 2>&1; rc=$?
echo "$s demo original: $orig | mutant: $mut | check=$c rc=$rc $(( $(date +%s)-st ))s $(grep -E '^VIOLATION|^HARNESS-ERROR|^INCONCLUSIVE' $tmp/log | sed 's/.*replays\///' | head -4 | tr '\n' ' ' | cut -c1-300)"
cp $tmp/log /tmp/seedtry_${s}_$c.log
rm -rf $tmp
