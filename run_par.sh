#!/bin/bash
# Runs every registered check (default tier quick), N at a time (default 3); one line per property.
TIER="${1:-quick}"; N="${2:-1}"   # one check at a time: each already uses up to 16 processes; 3 at once overloads 16 cores and obligations time out (INCONCLUSIVE)
cd "$(dirname "$0")"
one() {
  p=$1; s=$(date +%s)
  ./vcheck "$p" --tier "$TIER" > ".work_$p.log" 2>&1; rc=$?
  e=$(date +%s)
  echo "$p rc=$rc $((e-s))s $(grep -c '^VIOLATION' .work_$p.log) violations; $(grep -c '^INCONCLUSIVE' .work_$p.log) inconclusive; $(grep -c '^HARNESS-ERROR' .work_$p.log) harness errors; $(grep -c '^KNOWN-FINDING' .work_$p.log) known"
}
export -f one; export TIER
printf '%s\n' C11 C13 C01 C02 C10 C09 C12 C20 C18 C07 C05 C15 C14 C19 C16 C06 C08 C04 C17 C03 | xargs -P "$N" -I{} bash -c 'one {}'
