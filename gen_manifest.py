#!/usr/bin/env python3
"""Regenerates MANIFEST.json from vf/manifest_data.py (kept valid at all times)."""
import json
import sys
sys.path.insert(0, '.')
from vf.manifest_data import CHECKS, NOT_APPLICABLE, NOTES

checks = []
for pid, c in CHECKS.items():
    checks.append({
        'property_id': pid,
        'quick_cmd': f'./vcheck {pid} --tier quick',
        'thorough_cmd': f'./vcheck {pid} --tier thorough',
        'evidence_file': f'/verif/evidence/{pid}.json',
        'replay_cmd_template': './vcheck replay {path}',
        'engine': 'crosshair+py2smt',
        'level_claimed': {'category': 'model_checking', 'text': c['text'], 'design_ref': c.get('design_ref', 'DESIGN.md section 4')},
        'level_note': c['note'],
        'technique': c.get('technique', 'bounded symbolic execution of the real Python functions (CrossHair + z3), all paths within stated bounds; SMT-LIB kernels on z3 + cvc5; counterexamples replayed on the unmodified package'),
    })
m = {
    'version': 1,
    'setup_cmd': './vsetup.sh',
    'hooks': {'guard': 'WELL_ID_DLISWRITER_VERIF', 'enable': 'no source hooks are needed: harnesses drive the real functions directly through an import hook in /verif (vf/loader.py)',
              'baseline_off_cmd': 'cd /repo && /venv/bin/python -m pytest -ra -q -p no:cacheprovider --timeout=900 --continue-on-collection-errors',
              'source_commits': [], 'add_only': True},
    'engines': [
        {'name': 'crosshair', 'path': '/verif/vf/xh.py', 'serves_properties': sorted(CHECKS), 'kind_free_text': 'CrossHair 0.0.110 symbolic execution (z3) of the functions in /repo/src, driven per obligation'},
        {'name': 'py2smt', 'path': '/verif/vf/py2smt', 'serves_properties': [p for p, c in CHECKS.items() if c.get('smt')], 'kind_free_text': 'AST -> SMT-LIB2 translation of leaf kernels, decided by z3 and cvc5'},
    ],
    'checks': checks,
    'not_applicable': NOT_APPLICABLE,
    'notes': NOTES,
}
json.dump(m, open('MANIFEST.json', 'w'), indent=1)
print('checks:', len(checks), 'not_applicable:', len(NOT_APPLICABLE))
