#!/bin/bash
# usage: seed_eval.sh Cxx [check ids...]   - demo on both variants (scratch export), then the checks against /repo with the patch applied
c=$1; shift
checks="${@:-$c}"
d=/verif/seeded/$c
tmp=$(mktemp -d /tmp/seedeval_XXXX)
git -C /repo archive HEAD src/dliswriter | tar -x -C $tmp
orig=$(cd $tmp && PYTHONPATH=$tmp/src timeout 600 /venv/bin/python $d/demo.py 2>&1 | tail -1; )
(cd $tmp && patch -p1 -s < $d/patch.diff) || echo "PATCH FAILED"
mut=$(cd $tmp && PYTHONPATH=$tmp/src timeout 600 /venv/bin/python $d/demo.py 2>&1 | tail -1)
rm -rf $tmp
echo "$c demo original: $orig | mutant: $mut"
git -C /repo apply $d/patch.diff || { echo "apply to /repo failed"; exit 2; }
for k in $checks; do
  s=$(date +%s)
  /verif/vcheck $k > /tmp/seedcheck_${c}_$k.log 2>&1; rc=$?
  echo "$c check=$k rc=$rc $(( $(date +%s)-s ))s: $(grep -E '^VIOLATION|^HARNESS-ERROR|^INCONCLUSIVE' /tmp/seedcheck_${c}_$k.log | head -3 | cut -c1-260)"
done
git -C /repo checkout -- .
git -C /verif checkout -- evidence 2>/dev/null
