"""Qualified name -> sha256 of the function's *current* source text in /repo/src (pure AST; nothing is imported)."""
import ast
import hashlib
import os

REPO_SRC = os.environ.get('VF_REPO_SRC', '/repo/src')
_index = None


def _build():
    idx = {}
    root = os.path.join(REPO_SRC, 'dliswriter')
    for dp, _dn, fns in os.walk(root):
        for fn in fns:
            if not fn.endswith('.py'):
                continue
            p = os.path.join(dp, fn)
            with open(p) as f:
                src = f.read()
            try:
                tree = ast.parse(src)
            except SyntaxError:
                continue
            rel = os.path.relpath(p, REPO_SRC)

            def visit(node, prefix):
                for ch in ast.iter_child_nodes(node):
                    if isinstance(ch, (ast.FunctionDef, ast.AsyncFunctionDef)):
                        q = prefix + ch.name
                        seg = ast.get_source_segment(src, ch) or ''
                        idx.setdefault(q, []).append({'name': q, 'file': rel, 'line': ch.lineno,
                                                      'sha256': hashlib.sha256(seg.encode()).hexdigest()})
                        visit(ch, q + '.')
                    elif isinstance(ch, ast.ClassDef):
                        visit(ch, prefix + ch.name + '.')
            visit(tree, '')
    return idx


def hash_functions(names):
    global _index
    if _index is None:
        _index = _build()
    out = []
    for n in names:
        if n.endswith('<lambda>') or '<listcomp>' in n or '<genexpr>' in n or '<dictcomp>' in n:
            continue
        hits = _index.get(n) or _index.get(n.replace('.<locals>', ''))
        if not hits:
            out.append({'name': n, 'missing': True})
        else:
            out.extend(hits)
    return out
