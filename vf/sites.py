"""(shared by harnesses and replays; imports dliswriter through whatever import mechanism is active)

Introspected table of every EFLR item class and attribute of the package under test, with example-value factories.

Built at import time from the *current* source (nothing hard-coded about which attributes exist): ITEM_SETS is the
list of EFLRSet subclasses (FILE-HEADER excluded, it has its own obligation), SITES the list of (set index,
attribute name) pairs; SIG_SITES one representative per attribute signature.
"""
import inspect
import struct
from datetime import datetime, timezone

import os

from dliswriter.logical_record import eflr_types
from dliswriter.utils.internal.internal_enums import RepresentationCode as RepC

THOROUGH = os.environ.get('VERIF_TIER', 'quick') == 'thorough'
from vf.stubs.lenstr import LenStr

from dliswriter.logical_record.core.eflr import EFLRSet, EFLRItem
from dliswriter.logical_record.core.attribute.attribute import Attribute
from dliswriter.logical_record.core.attribute import subtypes as st

ITEM_SETS = sorted([c for _n, c in vars(eflr_types).items()
                    if inspect.isclass(c) and issubclass(c, EFLRSet) and c is not EFLRSet
                    and c.__name__ != 'FileHeaderSet'], key=lambda c: c.__name__)
N_SETS = len(ITEM_SETS)
DT0 = datetime(2021, 3, 4, 5, 6, 7, 8000, tzinfo=timezone.utc)


def make_item(set_cls, name='N', parent=None, origin=1, **kw):
    parent = parent if parent is not None else set_cls()
    cls = set_cls.item_type
    if set_cls.__name__ == 'OriginSet':
        return cls(name, parent, origin_reference=origin, file_set_number=kw.pop('file_set_number', 5),
                   creation_time=kw.pop('creation_time', DT0), **kw)
    return cls(name, parent, origin_reference=origin, **kw)


def signature(a):
    oc = getattr(a, '_object_class', None)
    return (type(a).__name__, a.multivalued, a.multidimensional,
            a._representation_code.name if a._representation_code else None, oc.__name__ if oc else None,
            getattr(a, '_allow_float', None), getattr(a, '_int_only', None), a._units_settable)


SITES = []          # (set index, attribute name)
_sig_seen = {}
for _i, _S in enumerate(ITEM_SETS):
    _it = make_item(_S)
    for _k, _a in _it.attributes.items():
        if _S.__name__ == 'OriginSet' and _k in ('file_set_number', 'creation_time'):
            continue            # set by the constructor; re-assignment is refused by design
        if type(_a).__name__ == 'ReprCodeAttribute':
            continue            # not user-settable (set from the data); covered by C08
        SITES.append((_i, _k))
        _sig_seen.setdefault(signature(_a), (_i, _k))
SIG_SITES = list(_sig_seen.values())
ACTIVE_SITES = SITES if THOROUGH else SIG_SITES
N_SITES = len(ACTIVE_SITES)

IDENT_EX = {}
IDENT_CANDIDATES = ['TIME', 'BOREHOLE-DEPTH', 'm', 'A1', 'INCREASING', 'STANDARD', 'Tool', 'LOCALLY-DEFINED']
# plus the first member of every enumeration the package defines (so that every validated attribute gets a valid example)
from dliswriter.utils import enums as _enums
for _en in vars(_enums).values():
    if inspect.isclass(_en) and hasattr(_en, '__members__') and len(_en.__members__):
        _v = list(_en.__members__.values())[0].value
        if _v not in IDENT_CANDIDATES:
            IDENT_CANDIDATES.append(_v)


def kind_of(a):
    """Value family of an attribute: 'ident' 'text' 'int' 'float' 'num' 'dtime' 'ref' 'refortext' 'status' 'dim' 'any'."""
    t = type(a).__name__
    if t in ('IdentAttribute', 'PropertiesAttribute'):
        return 'ident'
    if t == 'TextAttribute':
        return 'text'
    if t == 'StatusAttribute':
        return 'status'
    if t == 'DimensionAttribute':
        return 'dim'
    if t == 'DTimeAttribute':
        return 'dtime'
    if t == 'EFLROrTextAttribute':
        return 'refortext'
    if t == 'EFLRAttribute':
        return 'ref'
    if t == 'NumericAttribute':
        rc = a._representation_code
        if getattr(a, '_int_only', False) or (rc is not None and 12 <= rc.value <= 18):
            return 'int'
        return 'float' if rc is not None else 'num'
    if a._representation_code is RepC.OBJREF or a._representation_code is RepC.OBNAME:
        return 'ref'
    return 'any'


def int_range(a):
    rc = a._representation_code
    table = {'USHORT': (0, 255), 'UNORM': (0, 65535), 'ULONG': (0, 4294967295), 'UVARI': (0, 1073741823),
             'SSHORT': (-128, 127), 'SNORM': (-32768, 32767), 'SLONG': (-2147483648, 2147483647)}
    if rc is None:
        return table['SLONG']        # inferred code for python ints
    return table[rc.name]


def ref_target(a, k=0):
    """A real item of a class admissible for reference attribute ``a`` (its own set, origin 3)."""
    oc = getattr(a, '_object_class', None)
    set_cls = oc if (oc is not None and oc is not EFLRSet) else eflr_types.ZoneSet
    return make_item(set_cls, name='T' + str(k), origin=3)


def ident_example(a):
    key = (type(a.parent_eflr).__name__, a.label)
    if key in IDENT_EX:
        return IDENT_EX[key]
    for c in IDENT_CANDIDATES:
        try:
            a.convert_value(c)
            return c
        except (ValueError, TypeError):
            continue
    return 'X'


def expected_code(a, kind, py_value):
    rc = a._representation_code
    if rc is not None:
        return rc.value
    if kind in ('int',):
        return 14
    if kind in ('float', 'num'):
        return 7
    if kind == 'dtime':
        return 21 if isinstance(py_value, datetime) else 7
    if kind == 'refortext':
        return 23 if isinstance(py_value, EFLRItem) else 20
    if kind == 'any':
        if isinstance(py_value, str):
            return 20
        if isinstance(py_value, float):
            return 7
        return 14
    return None


for (_i, _k) in SITES:
    _it = make_item(ITEM_SETS[_i])
    _a = getattr(_it, _k)
    if kind_of(_a) == 'ident' and _a._converter is not None:
        for _c in IDENT_CANDIDATES:
            try:
                _a.convert_value(_c)
                IDENT_EX[(type(_it).__name__, _a.label)] = _c
                break
            except (ValueError, TypeError):
                continue


def py_values(a, kind, mult, x, s, arm):
    """-> (value to assign, flat list of expected python values) or None when the combination is redundant/invalid."""
    if kind == 'ident':
        v0 = s if a._converter is None else ident_example(a)
        pool = [v0, v0, v0]
    elif kind == 'text':
        pool = [s, 'v1', '']
    elif kind == 'int':
        lo, hi = int_range(a)
        if not (lo <= x <= hi):
            return None
        pool = [x, hi, lo]
    elif kind in ('float', 'num'):
        pool = [1.5, -2.25, 3.0]
    elif kind == 'dtime':
        if getattr(a, '_allow_float', False) and arm:
            pool = [2.5, 2.5, 2.5]
        else:
            pool = [DT0, DT0, DT0]
    elif kind == 'ref':
        pool = [ref_target(a, 0), ref_target(a, 1), ref_target(a, 2)]
    elif kind == 'refortext':
        pool = [s if arm else ref_target(a, 0)] * 3
    elif kind == 'status':
        if x != 0 and x != 1:
            return None
        pool = [x, 1, 0]
    elif kind == 'dim':
        if not (1 <= x <= 1073741823):
            return None
        pool = [x, 2, 3]
    else:
        pool = [x, 7, -7] if arm else [1.5, 2.5, 3.5]
        if arm and not (-2147483648 <= x <= 2147483647):
            return None
    if not a.multivalued:
        if mult == 6:
            # type confusion: two values given to a single-valued attribute (list or tuple) - to be refused or written
            # faithfully (count 2, two values), never "count 1 followed by two values"
            return ([pool[0], pool[1]] if arm else (pool[0], pool[1]), [pool[0], pool[1]])
        if mult != 1:
            return None
        return (pool[0], [pool[0]])
    if mult == 6:
        return None
    if mult == 0:
        return ([], [])
    if mult == 1:
        return ([pool[0]], [pool[0]])
    if mult == 2:
        return ([pool[0], pool[1]], [pool[0], pool[1]])
    if mult == 4:
        if not a.multidimensional:
            return None
        # three levels of nesting (one zone whose value is a 2 x 2 matrix)
        return ([[[pool[0], pool[1]], [pool[2], pool[0]]]], [pool[0], pool[1], pool[2], pool[0]])
    if a.multidimensional:
        return ([[pool[0], pool[1]], [pool[2], pool[0]]], [pool[0], pool[1], pool[2], pool[0]])
    return ([pool[0], pool[1], pool[2]], [pool[0], pool[1], pool[2]])


