"""Replays of the data-path obligations (C03, C08, C11, C12, C13, C19) with real numpy / h5py, through DLISFile.write and
the strict reader where a file is the subject."""
import io
import os
import struct
import sys

import numpy as np

from vf.rp66 import strict
from vf.replay.build import fresh_tmp

DT_NAMES = ['int8', 'int16', 'int32', 'uint8', 'uint16', 'uint32', 'float32', 'float64']
DT_CODE = [12, 13, 14, 15, 16, 17, 2, 7]
CODE_FMT = {12: 'b', 13: 'h', 14: 'i', 15: 'B', 16: 'H', 17: 'I', 2: 'f', 7: 'd'}


def _quiet():
    sys.stderr = io.StringIO()


def _res(bad, sample=None, argmap=None):
    r = {'reproduced': bad != '', 'ok': bad == '', 'detail': bad or 'as specified'}
    if sample is not None:
        r['sample'] = sample
    if argmap is not None:
        r['argmap'] = argmap
    return r


def make_cols(total, dtA, dtB, ordA, ordB, wB):
    a = (np.arange(total) % 100).astype(np.dtype(DT_NAMES[dtA]).newbyteorder(ordA))
    if wB:
        b = ((np.arange(total * wB).reshape(total, wB)) % 120).astype(np.dtype(DT_NAMES[dtB]).newbyteorder(ordB))
    else:
        b = ((np.arange(total) * 3) % 120).astype(np.dtype(DT_NAMES[dtB]).newbyteorder(ordB))
    x = np.arange(total, dtype=np.float64) + 0.5
    return a, b, x


def make_real_source(kind, a, b, x):
    """-> (data argument / source object, mapping channel -> dataset name, cleanup path)"""
    if kind == 0:
        return {'dsB': b, 'extra': x, 'dsA': a}, {'A': 'dsA', 'B': 'dsB'}, None
    if kind == 1:
        dt = np.dtype([('dsB', b.dtype, b.shape[1:]) if b.ndim > 1 else ('dsB', b.dtype), ('extra', x.dtype), ('dsA', a.dtype)])
        arr = np.zeros(len(a), dtype=dt)
        arr['dsB'], arr['extra'], arr['dsA'] = b, x, a
        return arr, {'A': 'dsA', 'B': 'dsB'}, None
    if kind == 2:
        dt = np.dtype([('A', a.dtype), ('B', b.dtype, b.shape[1:]) if b.ndim > 1 else ('B', b.dtype)])
        arr = np.zeros(len(a), dtype=dt)
        arr['A'], arr['B'] = a, b
        return arr, {'A': 'A', 'B': 'B'}, None
    if kind == 4:
        dt = np.dtype([('B', b.dtype, b.shape[1:]) if b.ndim > 1 else ('B', b.dtype), ('A', a.dtype)])
        arr = np.zeros(len(a), dtype=dt)
        arr['A'], arr['B'] = a, b
        return arr, {'A': 'A', 'B': 'B'}, None
    import h5py
    path = fresh_tmp('.h5')
    with h5py.File(path, 'w') as f:
        f.create_dataset('/dsA', data=a)
        f.create_dataset('/dsB', data=b)
        f.create_dataset('/extra', data=x)
    return path, {'A': 'dsA', 'B': '/dsB'}, path


def decode_frames(data):
    """strict parse; -> list per frame: (frame obname, [rows]) with each row = list of per-channel value lists."""
    r = strict.parse_file(data)
    lfv = r['logical_files'][0]
    errs, ids = strict.check_logical_file(lfv)
    if errs:
        raise strict.StrictError('logical-file', '; '.join(errs[:3]))
    chans = {}
    frames = {}
    for rec, e in lfv.eflrs:
        if e.set_type == 'CHANNEL':
            for ob, attrs in e.objects:
                code = strict.attr_of(attrs, 'REPRESENTATION-CODE').value[0]
                dim = strict.attr_of(attrs, 'DIMENSION').value
                el = strict.attr_of(attrs, 'ELEMENT-LIMIT').value
                chans[ob] = (code, dim, el)
        if e.set_type == 'FRAME':
            for ob, attrs in e.objects:
                frames[ob] = {'channels': strict.attr_of(attrs, 'CHANNELS').value, 'attrs': attrs, 'rows': []}
    for rec, ob, pos in lfv.iflrs:
        if rec.type != 0:
            continue
        fr = frames[ob]
        num, p = strict.dec_uvari(rec.body, pos)
        row = []
        for ch in fr['channels']:
            code, dim, el = chans[ch]
            n = 1
            for d in dim:
                n *= d
            sz = struct.calcsize(CODE_FMT[code]) * n
            if p + sz > len(rec.body):
                raise strict.StrictError('fdata-short', f'frame {ob} record {num}: slot of {sz} bytes does not fit')
            row.append(list(struct.unpack('>' + str(n) + CODE_FMT[code], rec.body[p:p + sz])))
            p += sz
        if p != len(rec.body):
            raise strict.StrictError('fdata-length', f'frame {ob} record {num}: {len(rec.body) - p} bytes left over')
        fr['rows'].append((num, row))
    return frames, chans


def write_with_source(kind, a, b, x, frm, to, chunk, inline=False, max_record_length=8192):
    from dliswriter import DLISFile
    df = DLISFile(max_record_length=max_record_length)
    lf = df.add_logical_file()
    lf.add_origin('O', file_set_number=1, creation_time='2020/01/01 00:00:00')
    src, mapping, cleanup = (None, {'A': 'A', 'B': 'B'}, None) if inline else make_real_source(kind, a, b, x)
    if inline:
        ca = lf.add_channel('A', data=a)
        cb = lf.add_channel('B', data=b)
    else:
        ca = lf.add_channel('A', dataset_name=mapping['A'])
        cb = lf.add_channel('B', dataset_name=mapping['B'])
    lf.add_frame('FR', channels=(ca, cb))
    path = fresh_tmp()
    try:
        df.write(path, input_chunk_size=chunk, output_chunk_size=65536, data=src, from_idx=frm, to_idx=to)
        with open(path, 'rb') as f:
            return f.read(), df
    finally:
        for p_ in (path, cleanup):
            if p_:
                try:
                    os.remove(p_)
                except OSError:
                    pass


def check_rows(data, a, b, frm, to):
    frames, chans = decode_frames(data)
    fr = list(frames.values())[0]
    ea, eb = a[frm:to], b[frm:to]
    if [n for n, _ in fr['rows']] != list(range(1, len(ea) + 1)):
        return f'frame numbers {[n for n, _ in fr["rows"]][:5]}.. for {len(ea)} rows'
    for k, (_n, row) in enumerate(fr['rows']):
        wa = [ea[k].item()]
        wb = np.asarray(eb[k]).reshape(-1).tolist()
        if row[0] != wa or row[1] != wb:
            return f'row {k}: decoded {row}, expected {[wa, wb]} (source rows {frm}..{to})'
    return ''


def replay_window(p):
    _quiet()
    a_ = p['args']
    ob = p.get('obligation', '')
    if 'fast_path' in ob:
        total, frm, to, start, stop = a_[:5]
        kind, to_none, stop_none = 2, False, False
    else:
        kind, total, frm, to, to_none, start, stop, stop_none = a_[:8]
    total = min(total, 20000)             # large enough for block-wise readers; the file-level part only up to 2000 rows
    frm, to = min(frm, total - 1), min(to, total)
    if to <= frm:
        to = frm + 1
    a, b, x = make_cols(total, 2, 7, '<', '<', 3)
    argmap = {'kind': kind, 'frm': frm, 'to': None if to_none else to, 'start': start, 'stop': None if stop_none else stop}
    if kind == 5:         # permuted fields of one format (the harness's sixth kind): structure of kind 4, B scalar like A
        a, b, x = make_cols(total, 2, 2, '<', '<', 0)
        b = b + 1000      # no value of B is a value of A: a swapped column shows in every row
        kind = 4
    # unit level: the real wrapper's chunk
    from dliswriter.utils.source_data_wrappers import DictDataWrapper, NumpyDataWrapper, HDF5DataWrapper
    src, mapping, cleanup = make_real_source(kind, a, b, x)
    try:
        W = [DictDataWrapper, NumpyDataWrapper, NumpyDataWrapper, HDF5DataWrapper, NumpyDataWrapper][kind]
        w = W(src, mapping, from_idx=frm, to_idx=None if to_none else to)
        eff_to = total if to_none else to
        start = min(start, eff_to - frm)
        stop = min(max(stop, start), eff_to - frm)
        chunk = w.load_chunk(start, None if stop_none else stop)
        eff_stop = (eff_to - frm) if stop_none else stop
        bad = ''
        if w.n_rows != eff_to - frm:
            bad = f'n_rows {w.n_rows} != {eff_to - frm}'
        elif chunk.dtype.names != ('A', 'B'):
            bad = f'chunk fields {chunk.dtype.names}'
        elif not (np.array_equal(chunk['A'], a[frm + start:frm + eff_stop]) and np.array_equal(chunk['B'], b[frm + start:frm + eff_stop])):
            bad = f'chunk rows differ from source rows [{frm + start}, {frm + eff_stop})'
        if hasattr(w, 'close'):
            w.close()
    finally:
        if cleanup:
            os.remove(cleanup)
    if bad or total > 2000:
        return _res(bad, argmap=argmap)
    # file level: the same window through DLISFile.write
    try:
        data, _df = write_with_source(kind, a, b, x, frm, None if to_none else to, None)
        bad = check_rows(data, a, b, frm, total if to_none else to)
    except strict.StrictError as e:
        bad = f'strict reader: {e}'
    except Exception as e:
        bad = f'write raised {type(e).__name__}: {e}'
    return _res(bad, {'kind': kind, 'window': [frm, None if to_none else to], 'rows': total}, argmap)


def replay_window_reject(p):
    _quiet()
    kind, total, frm, to, to_none = p['args'][:5]
    total = min(total, 300)
    to = min(to, total + 5)
    a, b, x = make_cols(total, 2, 7, '<', '<', 0)
    eff_to = total if to_none else to
    want = 0 <= frm < eff_to <= total
    argmap = {'kind': kind, 'total': total, 'frm': frm, 'to': None if to_none else to}
    try:
        data, _df = write_with_source(kind, a, b, x, frm, None if to_none else to, None)
    except (ValueError, RuntimeError) as e:
        return _res('' if not want else f'valid window [{frm}, {eff_to}) of {total} rows refused: {e}', argmap=argmap)
    if not want:
        frames, _c = decode_frames(data)
        n = len(list(frames.values())[0]['rows'])
        return _res(f'window [{frm}, {None if to_none else to}) of a {total}-row dataset was written ({n} records) instead of refused',
                    {'records': n}, argmap)
    bad = check_rows(data, a, b, frm, eff_to)
    return _res(bad, argmap=argmap)


def replay_iteration(p):
    _quiet()
    kind, total, frm, n, chunk, chunk_none = p['args'][:6]
    total = min(total, 400)
    frm = min(frm, total - 1)
    n = max(1, min(n, total - frm))
    a, b, x = make_cols(total, 2, 7, '<', '<', 3)
    outs = []
    bad = ''
    try:
        for c in ([None] if chunk_none else [chunk, None]):
            data, _ = write_with_source(kind, a, b, x, frm, frm + n, c)
            outs.append(data)
            bad = bad or check_rows(data, a, b, frm, frm + n)
        if not bad and len(outs) == 2 and outs[0] != outs[1]:
            bad = f'file differs between input_chunk_size={chunk} and None'
        if not bad:
            data4, _ = write_with_source(kind, a[frm:frm + n], b[frm:frm + n], x[frm:frm + n], 0, None, None, inline=True)
            if data4 != outs[0]:
                bad = 'file differs from the one written from pre-sliced inline arrays'
    except strict.StrictError as e:
        bad = f'strict reader: {e}'
    except Exception as e:
        bad = f'write raised {type(e).__name__}: {e}'
    return _res(bad, {'kind': kind, 'rows': n, 'chunk': None if chunk_none else chunk, 'file_bytes': len(outs[0]) if outs else 0})


def replay_tiling(p):
    _quiet()
    from dliswriter.utils.source_data_wrappers import SourceDataWrapper
    n, c, c_none = p['args'][:3]

    class W(SourceDataWrapper):
        def __init__(self, n):
            self._n_rows = n
            self.calls = []

        def load_chunk(self, start, stop):
            self.calls.append((start, stop))
            return []
    w = W(n)
    list(w.make_chunked_generator(None if c_none else c))
    pos, bad = 0, ''
    for a, b in w.calls:
        e = n if b is None else b
        if a != pos or e <= a or e > n or (not c_none and e - a > c):
            bad = f'requested ranges {w.calls[:6]} do not tile [0, {n}) in chunks of {c}'
        pos = e
    if pos != n:
        bad = bad or f'ranges end at {pos}, not {n}'
    return _res(bad, {'n': n, 'chunk': None if c_none else c, 'ranges': w.calls[:6]})


def replay_tiling_nonpos(p):
    """File level: n rows written with input_chunk_size=c (c <= 0): the write is refused, or the file holds the n rows."""
    _quiet()
    n, c = p['args'][:2]
    n = min(n, 2000)
    a, b, x = make_cols(n, 2, 7, '<', '<', 3)
    from dliswriter import DLISFile
    df = DLISFile()
    lf = df.add_logical_file()
    lf.add_origin('O', file_set_number=1, creation_time='2020/01/01 00:00:00')
    ca = lf.add_channel('A', data=a)
    cb = lf.add_channel('B', data=b)
    lf.add_frame('FR', channels=(ca, cb))
    path = fresh_tmp()
    try:
        try:
            df.write(path, input_chunk_size=c, output_chunk_size=65536)
        except Exception as e:
            return _res('', {'n': n, 'chunk': c, 'refused': f'{type(e).__name__}: {e}'[:200]})
        with open(path, 'rb') as f:
            data = f.read()
    finally:
        try:
            os.remove(path)
        except OSError:
            pass
    try:
        frames, _c = decode_frames(data)
        got = len(list(frames.values())[0]['rows']) if frames else 0
    except strict.StrictError as e:
        return _res(f'strict reader: {e}')
    bad = '' if got == n else f'{n} rows written with input_chunk_size={c}: accepted, and the file holds {got} frame data records'
    return _res(bad, {'n': n, 'chunk': c, 'records': got})


def replay_fdata_body(p):
    _quiet()
    ob = p.get('obligation', '')
    a_ = p['args']
    if 'number_edges' in ob:
        FN_EDGES = [1, 127, 128, 255, 256, 16383, 16384, 65535, 65536, 1073741823]
        return replay_frame_number({'args': [FN_EDGES[a_[0]] + a_[1]]})
    if 'bigendian' in ob:
        kind, dtB, wB = a_[:3]
        frame_number, ordA, ordB = 1, False, True
    else:
        kind, frame_number, dtB, ordA, ordB, wB = a_[:6]
    dtA = (dtB + 3) % 8
    wB = min(wB, 300)
    a, b, x = make_cols(6, dtA, dtB, '>' if ordA else '<', '>' if ordB else '<', wB)
    argmap = {'kind': kind, 'dtB': DT_NAMES[dtB], 'ordA': ordA, 'ordB': ordB, 'wB': wB}
    try:
        data, _ = write_with_source(kind, a, b, x, 0, None, None)
        bad = check_rows(data, a, b, 0, 6)
    except strict.StrictError as e:
        bad = f'strict reader: {e}'
    except Exception as e:
        bad = f'write raised {type(e).__name__}: {e}'
    return _res(bad, {'dtypes': [str(a.dtype), str(b.dtype)], 'shape_b': list(b.shape)}, argmap)


def replay_fdata_cast(p):
    """Channel B with a cast dtype carrying a byte order (np.dtype('>f4') ...): rows read back equal the cast values."""
    _quiet()
    kind, dtB, castB, ordB, ordC, wB = p['args'][:6]
    wB = min(wB, 300)
    a, b, x = make_cols(5, 2, dtB, '<', '>' if ordB else '<', wB)
    from dliswriter import DLISFile
    df = DLISFile()
    lf = df.add_logical_file()
    lf.add_origin('O', file_set_number=1, creation_time='2020/01/01 00:00:00')
    src, mapping, cleanup = make_real_source(kind, a, b, x)
    cdt = np.dtype(DT_NAMES[castB]).newbyteorder('>' if ordC else '<')
    argmap = {'kind': kind, 'source dtype': str(b.dtype), 'cast_dtype': str(cdt), 'width': wB}
    path = fresh_tmp()
    bad = ''
    try:
        ca = lf.add_channel('A', dataset_name=mapping['A'])
        cb = lf.add_channel('B', dataset_name=mapping['B'], cast_dtype=cdt)
        lf.add_frame('FR', channels=(ca, cb))
        import warnings
        with warnings.catch_warnings():
            warnings.simplefilter('ignore')
            df.write(path, data=src, output_chunk_size=65536)
            with open(path, 'rb') as f:
                data = f.read()
            bad = check_rows(data, a, b.astype(DT_NAMES[castB]), 0, 5)
    except strict.StrictError as e:
        bad = f'strict reader: {e}'
    except (ValueError, TypeError, RuntimeError) as e:
        bad = ''                            # a cast dtype the library refuses is not this obligation's subject
        argmap['refused'] = str(e)[:80]
    finally:
        for p_ in (path, cleanup):
            if p_:
                try:
                    os.remove(p_)
                except OSError:
                    pass
    return _res(bad, {'dtype': str(b.dtype), 'cast': str(cdt), 'width': wB}, argmap)


def replay_descriptors(p):
    _quiet()
    kind, dt, wB, cast, dim_given, dim, lim_given, lim = p['args'][:8]
    wB = min(wB, 300)
    dim, lim = min(dim, 400), min(lim, 400)
    dtB = (2 if dt != 2 else 7) if cast else dt
    a, b, x = make_cols(5, 2, dtB, '<', '<', wB)
    from dliswriter import DLISFile
    df = DLISFile()
    lf = df.add_logical_file()
    lf.add_origin('O', file_set_number=1, creation_time='2020/01/01 00:00:00')
    src, mapping, cleanup = make_real_source(kind, a, b, x)
    shape = wB if wB else 1
    consistent = (not dim_given or dim == shape) and (not lim_given or lim >= shape)
    path = fresh_tmp()
    try:
        ca = lf.add_channel('A', dataset_name=mapping['A'])
        cb = lf.add_channel('B', dataset_name=mapping['B'], cast_dtype=getattr(np, DT_NAMES[dt]) if cast else None,
                            dimension=[dim] if dim_given else None, element_limit=[lim] if lim_given else None)
        lf.add_frame('FR', channels=(ca, cb))
        try:
            df.write(path, data=src, output_chunk_size=65536)
            ok = True
        except RuntimeError as e:
            ok = False
        bad = '' if ok == consistent else f'write accepted={ok} although user dimension/limit consistent={consistent}'
        if ok and not bad:
            with open(path, 'rb') as f:
                data = f.read()
            frames, chans = decode_frames(data)
            code, dm, el = [v for k, v in chans.items() if k[2] == 'B'][0]
            want = DT_CODE[dt]
            if code != want or dm != [shape] or el is None or el[0] < shape or (lim_given and el != [lim]):
                bad = f'channel B: code {code} (want {want}), DIMENSION {dm} (want [{shape}]), ELEMENT-LIMIT {el}'
            else:
                bad = check_rows(data, a, b.astype(DT_NAMES[dt]) if cast else b, 0, 5)
    except strict.StrictError as e:
        bad = f'strict reader: {e}'
    finally:
        for p_ in (path, cleanup):
            if p_:
                try:
                    os.remove(p_)
                except OSError:
                    pass
    return _res(bad, {'dtype': DT_NAMES[dtB], 'cast': DT_NAMES[dt] if cast else None, 'width': wB})


def replay_rowcount(p):
    _quiet()
    kind, first, other, first_is_a = p['args'][:4]
    nA, nB = (first, other) if first_is_a else (other, first)
    from dliswriter import DLISFile
    a = np.arange(nA, dtype=np.int32)
    b = np.arange(nB, dtype=np.float64)
    df = DLISFile()
    lf = df.add_logical_file()
    lf.add_origin('O', file_set_number=1, creation_time='2020/01/01 00:00:00')
    ca = lf.add_channel('A', dataset_name='dsA')
    cb = lf.add_channel('B', dataset_name='dsB')
    lf.add_frame('FR', channels=(ca, cb) if first_is_a else (cb, ca))
    cleanup = None
    if kind == 0:
        src = {'dsA': a, 'dsB': b}
    else:
        import h5py
        cleanup = fresh_tmp('.h5')
        with h5py.File(cleanup, 'w') as f:
            f.create_dataset('/dsA', data=a)
            f.create_dataset('/dsB', data=b)
        src = cleanup
    path = fresh_tmp()
    try:
        try:
            df.write(path, data=src, output_chunk_size=65536)
            bad = f'channels with {nA} and {nB} rows were written ({os.path.getsize(path)} bytes) instead of rejected'
        except (ValueError, RuntimeError):
            bad = ''
    finally:
        for p_ in (path, cleanup):
            if p_:
                try:
                    os.remove(p_)
                except OSError:
                    pass
    return _res(bad, {'rows': [nA, nB]}, {'first': first, 'other': other})


def replay_bad_source(p):
    _quiet()
    what, kind = p['args'][:2]
    from dliswriter import DLISFile
    a = np.arange(5, dtype=np.int32)
    if what == 0:
        b = np.arange(5).astype(np.int64 if kind else np.float16)
    elif what == 1:
        b = np.zeros((5, 3, 2))
    else:
        b = None
    df = DLISFile()
    lf = df.add_logical_file()
    lf.add_origin('O', file_set_number=1, creation_time='2020/01/01 00:00:00')
    ca = lf.add_channel('A', dataset_name='dsA')
    cb = lf.add_channel('B', dataset_name='dsB')
    lf.add_frame('FR', channels=(ca, cb))
    src = {'dsA': a}
    if b is not None:
        src['dsB'] = b
    path = fresh_tmp()
    try:
        try:
            df.write(path, data=src, output_chunk_size=65536)
            bad = 'unrepresentable source accepted'
        except (ValueError, RuntimeError):
            bad = ''
    finally:
        try:
            os.remove(path)
        except OSError:
            pass
    return _res(bad)


def replay_data_dict(p):
    _quiet()
    from dliswriter import DLISFile
    pass_b, pass_extra, overlap_a, n = p['args'][:4]
    df = DLISFile()
    lf = df.add_logical_file()
    lf.add_origin('O', file_set_number=1, creation_time='2020/01/01 00:00:00')
    inline = np.arange(n, dtype=np.int32)
    ca = lf.add_channel('A', data=inline)
    cb = lf.add_channel('B')
    lf.add_frame('FR', channels=(ca, cb))
    passed = {}
    if pass_b:
        passed['B'] = np.arange(n * 3, dtype=np.float64).reshape(n, 3)
    if pass_extra:
        passed['extra'] = np.arange(n, dtype=np.float64)
    if overlap_a:
        passed['A'] = np.arange(n, dtype=np.int32) + 50
    keys = list(passed)
    vals = [passed[k] for k in keys]
    copies = [v.copy() for v in vals]
    own_before = dict(lf._data_dict)
    path = fresh_tmp()
    bad = ''
    try:
        try:
            df.write(path, data=passed, output_chunk_size=65536)
            ok = True
        except (ValueError, RuntimeError):
            ok = False
        if ok != bool(pass_b):
            bad = f'write with data for B passed={bool(pass_b)}: succeeded={ok}'
        if list(passed) != keys or any(passed[k] is not v for k, v in zip(keys, vals)):
            bad = bad or 'the dict passed as data was modified'
        if any(v.tobytes() != c.tobytes() for v, c in zip(vals, copies)):
            bad = bad or 'an array passed as data was modified'
        if list(lf._data_dict) != list(own_before) or any(lf._data_dict[k] is not own_before[k] for k in own_before):
            bad = bad or f'data passed to write() stayed in the specification: {list(lf._data_dict)}'
        if not bad and pass_b:
            try:
                df.write(path, output_chunk_size=65536)
                bad = 'a second write without data succeeded using the first call\'s arrays'
            except (ValueError, RuntimeError):
                pass
    finally:
        try:
            os.remove(path)
        except OSError:
            pass
    return _res(bad, {'passed': keys})


def replay_taint(p):
    _quiet()
    import hashlib
    kind, n, chunk, cast, big = p['args'][:5]
    o = '>' if big else '<'
    a, b, x = make_cols(n + 2, 2, 7, o, o, 3)
    b[1, 0], b[n, 2] = np.nan, np.inf          # special values inside the written window
    a.setflags(write=True)
    snap = [arr.tobytes() for arr in (a, b, x)]
    from dliswriter import DLISFile
    df = DLISFile()
    lf = df.add_logical_file()
    lf.add_origin('O', file_set_number=1, creation_time='2020/01/01 00:00:00')
    src, mapping, cleanup = make_real_source(kind, a, b, x)
    src_snap = src.tobytes() if isinstance(src, np.ndarray) else None
    h5_hash = hashlib.sha256(open(cleanup, 'rb').read()).hexdigest() if cleanup else None
    ca = lf.add_channel('A', dataset_name=mapping['A'])
    cb = lf.add_channel('B', dataset_name=mapping['B'], cast_dtype=[None, np.float32, np.int32, np.uint8][int(cast)])
    lf.add_frame('FR', channels=(ca, cb))
    path = fresh_tmp()
    bad = ''
    try:
        import warnings
        warnings.simplefilter('ignore')
        df.write(path, data=src, input_chunk_size=chunk, from_idx=1, to_idx=n + 1, output_chunk_size=65536)
        if [arr.tobytes() for arr in (a, b, x)] != snap:
            bad = 'a source array changed during the write'
        if src_snap is not None and src.tobytes() != src_snap:
            bad = bad or 'the structured source array changed during the write'
        if cleanup and hashlib.sha256(open(cleanup, 'rb').read()).hexdigest() != h5_hash:
            bad = bad or 'the HDF5 file changed during the write'
    except Exception as e:
        bad = f'write raised {type(e).__name__}: {e}'
    finally:
        for p_ in (path, cleanup):
            if p_:
                try:
                    os.remove(p_)
                except OSError:
                    pass
    return _res(bad, {'kind': kind, 'rows': n, 'cast': bool(cast), 'big_endian': bool(big)})


def replay_two_frames(p):
    _quiet()
    from dliswriter import DLISFile
    n1, n2, c1, c2 = p['args'][:4]
    df = DLISFile()
    lf = df.add_logical_file()
    lf.add_origin('O', file_set_number=1, creation_time='2020/01/01 00:00:00')
    A, B = np.arange(n1, dtype=np.int32), np.arange(n1 * 3, dtype=np.float64).reshape(n1, 3)
    P, Q = np.arange(n2, dtype=np.int32) + 100, np.arange(n2, dtype=np.float64) + 0.25
    ca, cb = lf.add_channel('A', data=A), lf.add_channel('B', data=B)
    cp, cq = lf.add_channel('P', data=P), lf.add_channel('Q', data=Q)
    lf.add_frame('F1', channels=(ca, cb))
    lf.add_frame('F2', channels=(cp, cq))
    path = fresh_tmp()
    bad = ''
    try:
        df.write(path, input_chunk_size=c1, output_chunk_size=65536)
        frames, chans = decode_frames(open(path, 'rb').read())
        f1 = [v for k, v in frames.items() if k[2] == 'F1'][0]
        f2 = [v for k, v in frames.items() if k[2] == 'F2'][0]
        if [n for n, _ in f1['rows']] != list(range(1, n1 + 1)) or [n for n, _ in f2['rows']] != list(range(1, n2 + 1)):
            bad = f'frame numbers {[n for n, _ in f1["rows"]]} / {[n for n, _ in f2["rows"]]}'
        for k, (_n, row) in enumerate(f1['rows']):
            if row != [[int(A[k])], B[k].tolist()]:
                bad = bad or f'frame F1 row {k}: {row}'
        for k, (_n, row) in enumerate(f2['rows']):
            if row != [[int(P[k])], [float(Q[k])]]:
                bad = bad or f'frame F2 row {k}: {row}'
    except strict.StrictError as e:
        bad = f'strict reader: {e}'
    finally:
        try:
            os.remove(path)
        except OSError:
            pass
    return _res(bad, {'rows': [n1, n2]})


INT_DT = ['int8', 'int16', 'int32', 'uint8', 'uint16', 'uint32']


def _frame_attrs(data):
    r = strict.parse_file(data)
    lfv = r['logical_files'][0]
    for rec, e in lfv.eflrs:
        if e.set_type == 'FRAME':
            ob, attrs = e.objects[0]
            out = {}
            for a in attrs:
                out[a.label] = None if (a.absent or not a.has_value) else a.value[0]
            return out
    return {}


def replay_spacing(p):
    _quiet()
    from dliswriter.logical_record.eflr_types.frame import FrameItem
    ob = p.get('obligation', '')
    a_ = p['args']
    if 'unsigned_decreasing' in ob:
        dti, vals = 3, list(a_[:3])
    elif 'spacing_tol' in ob:
        dti, n = a_[0], a_[1]
        vals = list(a_[2:6])[:n]
    else:
        dti, n = a_[0], a_[1]
        vals = list(a_[2:5])[:n]
    info = np.iinfo(INT_DT[dti])
    if any(not (info.min <= v <= info.max) for v in vals):
        return _res('', {'skipped': 'values outside the dtype'})
    arr = np.array(vals, dtype=INT_DT[dti])
    import warnings
    with warnings.catch_warnings():
        warnings.simplefilter('ignore')
        spacing, direction = FrameItem._compute_spacing_and_direction(arr)
    n = len(vals)
    bad = ''
    argmap = {'dtype': INT_DT[dti], 'values': vals}
    if n == 1:
        if spacing is not None or direction is not None:
            bad = f'single row: spacing {spacing}, direction {direction}'
    else:
        diffs = [vals[i + 1] - vals[i] for i in range(n - 1)]
        if len(set(diffs)) == 1 and (spacing is None or spacing != diffs[0]):
            bad = f'{INT_DT[dti]} index {vals}: spacing {spacing}, true difference {diffs[0]}'
        inc, dec = all(x >= 0 for x in diffs), all(x <= 0 for x in diffs)
        want = None if all(x == 0 for x in diffs) else True if inc else False if dec else None
        if not bad and direction is not want:
            bad = f'{INT_DT[dti]} index {vals}: direction {direction}, expected {want}'
        if not bad and len(set(diffs)) > 1:
            # the documented tolerance, exactly: (1 - d/median)**2 < 0.001 for every difference (a band of 1e-3 around
            # the threshold is left to float rounding)
            from fractions import Fraction
            sd = sorted(diffs)
            k = len(sd)
            med = Fraction(sd[k // 2]) if k % 2 else Fraction(sd[k // 2 - 1] + sd[k // 2], 2)
            if med == 0:
                if spacing is not None:
                    bad = f'{INT_DT[dti]} index {vals}: spacing {spacing} with a zero median difference'
            else:
                dev = [(1 - Fraction(x) / med) ** 2 for x in diffs]
                if any(v > Fraction(32, 1000) ** 2 for v in dev) and spacing is not None:
                    bad = f'{INT_DT[dti]} index {vals}: SPACING {spacing} although the differences {diffs} are not uniform within the tolerance'
                elif all(v < Fraction(31, 1000) ** 2 for v in dev) and (spacing is None or Fraction(spacing) != med):
                    bad = f'{INT_DT[dti]} index {vals}: spacing {spacing}, near-uniform differences {diffs} with median {med}'
    if not bad and n >= 2:
        # file level: the frame written for that index channel
        from dliswriter import DLISFile
        df = DLISFile()
        lf = df.add_logical_file()
        lf.add_origin('O', file_set_number=1, creation_time='2020/01/01 00:00:00')
        ch = lf.add_channel('IDX', data=arr)
        lf.add_frame('FR', channels=(ch,), index_type='BOREHOLE-DEPTH')
        path = fresh_tmp()
        try:
            df.write(path, output_chunk_size=65536)
            at = _frame_attrs(open(path, 'rb').read())
            if at.get('INDEX-MIN') != min(vals) or at.get('INDEX-MAX') != max(vals):
                bad = f'INDEX-MIN/MAX {at.get("INDEX-MIN")}/{at.get("INDEX-MAX")} for {vals}'
            diffs = [vals[i + 1] - vals[i] for i in range(n - 1)]
            if not bad and len(set(diffs)) == 1 and at.get('SPACING') != diffs[0]:
                bad = f'SPACING {at.get("SPACING")} written for {INT_DT[dti]} index {vals}'
        except strict.StrictError as e:
            bad = f'strict reader: {e}'
        finally:
            try:
                os.remove(path)
            except OSError:
                pass
    return _res(bad, {'dtype': INT_DT[dti], 'values': vals, 'spacing': None if spacing is None else float(spacing)}, argmap)


def replay_float_index(p):
    """float64 index of integer-valued numbers / NaN through the public API: what SPACING the file declares, and
    whether the high-compatibility mode refuses an index with a hole."""
    _quiet()
    import math
    import contextlib
    import warnings
    from dliswriter import DLISFile, high_compatibility_mode
    from dliswriter.logical_record.eflr_types.frame import FrameItem
    a_ = p['args']
    n = a_[0]
    ints = list(a_[1:5])[:n]
    flags = list(a_[5:9])[:n]
    mode = bool(a_[9])
    vals = [float('nan') if flags[i] else float(ints[i]) for i in range(n)]
    anynan = any(flags)
    arr = np.array(vals, dtype=np.float64)
    argmap = {'index': [None if math.isnan(v) else v for v in vals], 'high_compat_mode': mode}
    bad = ''
    with warnings.catch_warnings():
        warnings.simplefilter('ignore')
        spacing, direction = FrameItem._compute_spacing_and_direction(arr)
    if anynan and n >= 2 and spacing is not None:
        bad = f'float64 index {vals}: SPACING {spacing} declared for an index with a missing (NaN) sample'
    if not anynan and n >= 2:
        diffs = [ints[i + 1] - ints[i] for i in range(n - 1)]
        if len(set(diffs)) == 1 and (spacing is None or spacing != diffs[0]):
            bad = f'float64 index {vals}: spacing {spacing}, true difference {diffs[0]}'
        inc, dec = all(x >= 0 for x in diffs), all(x <= 0 for x in diffs)
        want = None if all(x == 0 for x in diffs) else True if inc else False if dec else None
        if not bad and direction is not want:
            bad = f'float64 index {vals}: direction {direction}, expected {want}'
        if not bad and len(set(diffs)) > 1 and spacing is not None:
            from fractions import Fraction
            sd = sorted(diffs)
            k = len(sd)
            med = Fraction(sd[k // 2]) if k % 2 else Fraction(sd[k // 2 - 1] + sd[k // 2], 2)
            if med == 0 or any((1 - Fraction(x) / med) ** 2 > Fraction(32, 1000) ** 2 for x in diffs):
                bad = f'float64 index {vals}: SPACING {spacing} although the differences {diffs} are not uniform within the tolerance'
    if n == 1 and (spacing is not None or direction is not None):
        bad = f'single row: spacing {spacing}, direction {direction}'
    if not bad and n >= 2 and anynan:
        path = fresh_tmp()
        try:
            with warnings.catch_warnings():
                warnings.simplefilter('ignore')
                with (high_compatibility_mode() if mode else contextlib.nullcontext()):
                    df = DLISFile()
                    lf = df.add_logical_file()
                    lf.add_origin('O', file_set_number=1, creation_time='2020/01/01 00:00:00')
                    ch = lf.add_channel('IDX', data=arr)
                    lf.add_frame('FR', channels=(ch,), index_type='BOREHOLE-DEPTH')
                    try:
                        df.write(path, output_chunk_size=65536)
                        ok = True
                    except RuntimeError:
                        ok = False
            if mode and ok:
                bad = f'written in the high-compatibility mode although the index {vals} has a missing sample'
            elif ok:
                at = _frame_attrs(open(path, 'rb').read())
                if at.get('SPACING') is not None:
                    bad = f'SPACING {at.get("SPACING")} written for index {vals}'
        except strict.StrictError as e:
            bad = f'strict reader: {e}'
        finally:
            try:
                os.remove(path)
            except OSError:
                pass
    return _res(bad, {'values': argmap['index'], 'spacing': None if spacing is None else float(spacing)}, argmap)


def replay_params(p):
    _quiet()
    from dliswriter import DLISFile, high_compatibility_mode
    import contextlib
    has_type, u_min, u_max, u_sp, u_dir, uniform, rows, mode = p['args'][:8]
    zero = bool(p['args'][8]) if len(p['args']) > 8 else False
    UMIN, UMAX, USP = (0.0, 0.0, 0.0) if zero else (1000.5, 2000.5, 77.5)
    vals = ([10, 12, 14, 16] if uniform else [10, 12, 19, 31])[:rows]
    really_uniform = uniform or rows <= 2
    path = fresh_tmp()
    bad = ''
    try:
        with (high_compatibility_mode() if mode else contextlib.nullcontext()):
            df = DLISFile()
            lf = df.add_logical_file()
            lf.add_origin('O', file_set_number=1, creation_time='2020/01/01 00:00:00')
            ch = lf.add_channel('IDX', data=np.array(vals, dtype=np.float64 if mode else np.int32), units='m')
            lf.add_frame('FR', channels=(ch,), index_type='BOREHOLE-DEPTH' if has_type else None,
                         index_min=UMIN if u_min else None, index_max=UMAX if u_max else None,
                         spacing=USP if u_sp else None, direction='DECREASING' if u_dir else None)
            try:
                df.write(path, output_chunk_size=65536)
                ok = True
            except RuntimeError:
                ok = False
        must_fail = mode and has_type and (not really_uniform or rows == 1)
        if ok == must_fail:
            bad = f'write succeeded={ok}, expected refusal={must_fail}'
        if ok and not bad:
            at = _frame_attrs(open(path, 'rb').read())
            if not has_type:
                want = {'INDEX-MIN': UMIN if u_min else 1, 'INDEX-MAX': UMAX if u_max else rows, 'SPACING': USP if u_sp else 1}
            else:
                want = {'INDEX-MIN': UMIN if u_min else vals[0], 'INDEX-MAX': UMAX if u_max else vals[-1]}
                want['SPACING'] = USP if u_sp else (2 if (really_uniform and rows >= 2) else None)
            for k, v in want.items():
                if at.get(k) != v:
                    bad = bad or f'{k} = {at.get(k)}, expected {v} (attributes {at})'
            if u_dir and at.get('DIRECTION') != 'DECREASING':
                bad = bad or f'DIRECTION {at.get("DIRECTION")}'
    except strict.StrictError as e:
        bad = f'strict reader: {e}'
    finally:
        try:
            os.remove(path)
        except OSError:
            pass
    return _res(bad, {'flags': p['args'][:8]})


def replay_second_setup(p):
    _quiet()
    from dliswriter import DLISFile
    a_ = p['args']
    if len(a_) == 1:
        has_type, rows1, rows2 = False, a_[0], a_[0]
    else:
        has_type, rows1, rows2 = a_[:3]
    df = DLISFile()
    lf = df.add_logical_file()
    lf.add_origin('O', file_set_number=1, creation_time='2020/01/01 00:00:00')
    ch = lf.add_channel('IDX')
    lf.add_frame('FR', channels=(ch,), index_type='BOREHOLE-DEPTH' if has_type else None)
    first = np.array([10, 12, 14, 16][:rows1], dtype=np.int32)
    second = np.array([50, 55, 60, 65][:rows2], dtype=np.int32)
    path = fresh_tmp()
    bad = ''
    try:
        df.write(path, data={'IDX': first}, output_chunk_size=65536)
        df.write(path, data={'IDX': second}, output_chunk_size=65536)
        at = _frame_attrs(open(path, 'rb').read())
        if has_type:
            want = {'INDEX-MIN': 50, 'INDEX-MAX': int(second[-1]), 'SPACING': 5}
        else:
            want = {'INDEX-MIN': 1, 'INDEX-MAX': rows2}
        for k, v in want.items():
            if at.get(k) != v:
                bad = bad or f'second write: {k} = {at.get(k)}, expected {v} (values of the first write persist)'
    except strict.StrictError as e:
        bad = f'strict reader: {e}'
    finally:
        try:
            os.remove(path)
        except OSError:
            pass
    return _res(bad, {'rows': [rows1, rows2], 'index_type': bool(has_type)}, {'has_type': bool(has_type), 'rows1': rows1, 'rows2': rows2})


def replay_two_files_data(p):
    _quiet()
    from dliswriter import DLISFile
    n1, n2, pass_dict, same_names = p['args'][:4]
    df = DLISFile()
    lf1 = df.add_logical_file(fh_id='LF1')
    lf2 = df.add_logical_file(fh_id='LF2', fh_sequence_number=2)
    lf1.add_origin('O1', file_set_number=1, creation_time='2020/01/01 00:00:00', set_name='S1')
    lf2.add_origin('O2', file_set_number=1, creation_time='2020/01/01 00:00:00', set_name='S2')
    A1 = np.arange(n1, dtype=np.int32) + 10
    A2 = np.arange(n2, dtype=np.int32) + 500
    c1 = lf1.add_channel('A', data=A1, set_name='S1')
    c2 = lf2.add_channel('A' if same_names else 'B', data=A2, set_name='S2')
    lf1.add_frame('F1', channels=(c1,), set_name='S1')
    lf2.add_frame('F2', channels=(c2,), set_name='S2')
    shared = {} if pass_dict else None
    path = fresh_tmp()
    bad = ''
    try:
        df.write(path, data=shared, output_chunk_size=65536)
        r = strict.parse_file(open(path, 'rb').read())
        rows = []
        for lfv in r['logical_files']:
            vals = []
            for rec, ob, pos in lfv.iflrs:
                if rec.type == 0:
                    num, q = strict.dec_uvari(rec.body, pos)
                    vals.append(struct.unpack('>i', rec.body[q:q + 4])[0])
            rows.append(vals)
        if rows != [A1.tolist(), A2.tolist()]:
            bad = f'logical files carry rows {rows}, expected {[A1.tolist(), A2.tolist()]}'
        if pass_dict and shared:
            bad = bad or f'the dict passed as data now has keys {list(shared)}'
    except strict.StrictError as e:
        bad = f'strict reader: {e}'
    except Exception as e:
        bad = f'write raised {type(e).__name__}: {e}'
    finally:
        try:
            os.remove(path)
        except OSError:
            pass
    return _res(bad, {'rows': [n1, n2]})



def replay_dataset_names_sets(p):
    """Two channels (names, explicit dataset names, channel-set names) with inline data, one frame each: each frame's
    rows are its own channel's values."""
    _quiet()
    from dliswriter import DLISFile
    a1, d1, s1, a2, d2, s2 = p['args'][:6]
    N, DS, SN = ['A', 'B'], [None, 'A', 'B', 'A__1'], [None, 'S']
    df = DLISFile()
    lf = df.add_logical_file()
    lf.add_origin('O', file_set_number=1, creation_time='2020/01/01 00:00:00')
    arrs = [np.arange(3, dtype=np.float64) + 10, np.arange(3, dtype=np.float64) + 500]
    chans = []
    try:
        for k, (a, d, sn) in enumerate(((a1, d1, s1), (a2, d2, s2))):
            chans.append(lf.add_channel(N[a], data=arrs[k], dataset_name=DS[d], set_name=SN[sn]))
    except ValueError as e:
        return _res('', {'refused': str(e)[:80]})
    for k, c in enumerate(chans):
        lf.add_frame('F' + str(k), channels=(c,))
    path = fresh_tmp()
    bad = ''
    try:
        df.write(path, output_chunk_size=65536)
        r = strict.parse_file(open(path, 'rb').read())
        lfv = r['logical_files'][0]
        rows = {}
        for rec, ob, pos in lfv.iflrs:
            if rec.type == 0:
                num, q = strict.dec_uvari(rec.body, pos)
                rows.setdefault(ob[2], []).append(struct.unpack('>d', rec.body[q:q + 8])[0])
        want = {'F0': arrs[0].tolist(), 'F1': arrs[1].tolist()}
        if rows != want:
            bad = f'frames carry {rows}, expected {want} (dataset names {[c.dataset_name for c in chans]})'
    except strict.StrictError as e:
        bad = f'strict reader: {e}'
    except Exception as e:
        bad = f'write raised {type(e).__name__}: {e}'
    finally:
        try:
            os.remove(path)
        except OSError:
            pass
    return _res(bad, {'dataset_names': [c.dataset_name for c in chans]})


def replay_dup_names(p):
    """A frame listing two channels of one name (or one channel twice) with inline data: the write is refused, or the
    file decodes with one slot per listed channel."""
    _quiet()
    from dliswriter import DLISFile
    mode, n, chunk = p['args'][:3]
    df = DLISFile()
    lf = df.add_logical_file()
    lf.add_origin('O', file_set_number=1, creation_time='2020/01/01 00:00:00')
    i = lf.add_channel('I', data=np.arange(n, dtype=np.float64))
    x0 = lf.add_channel('X', data=np.arange(n, dtype=np.int32) + 100)
    x1 = lf.add_channel('X' if mode != 2 else 'Y', data=np.arange(n, dtype=np.int32) + 200)
    chans = (i, x0, x0) if mode == 1 else (i, x0, x1)
    path = fresh_tmp()
    bad = ''
    try:
        lf.add_frame('F', channels=chans)
        df.write(path, input_chunk_size=chunk, output_chunk_size=65536)
        r = strict.parse_file(open(path, 'rb').read())
        lfv = r['logical_files'][0]
        errs, _ids = strict.check_logical_file(lfv)
        if errs:
            bad = '; '.join(errs[:2])
        for rec, ob, pos in lfv.iflrs:
            if rec.type == 0 and not bad:
                num, q = strict.dec_uvari(rec.body, pos)
                if len(rec.body) - q != 8 + 4 * 2:
                    bad = (f'the frame lists {len(chans)} channels (16 bytes of slots per record), the frame data records '
                           f'carry {len(rec.body) - q} bytes')
    except strict.StrictError as e:
        bad = f'strict reader: {e}'
    except (ValueError, RuntimeError, TypeError, KeyError) as e:
        bad = '' if mode != 2 else f'distinct names refused: {e}'
    finally:
        try:
            os.remove(path)
        except OSError:
            pass
    return _res(bad, {'mode': mode, 'rows': n})


def replay_remap(p):
    """Written once; channel A re-pointed to another data set (or replaced by a same-named channel reading it);
    written again: the second file equals the file of a fresh specification with that mapping."""
    _quiet()
    from dliswriter import DLISFile
    n, chunk, how, kind = p['args'][:4]
    A = np.arange(n, dtype=np.int32) + 10
    B = np.arange(n, dtype=np.float64) + 0.5
    C = np.arange(n, dtype=np.int32) + 7000
    if kind == 0:
        src = {'dsA': A, 'dsB': B, 'dsC': C}
    else:
        src = np.zeros(n, dtype=[('dsA', A.dtype), ('dsB', B.dtype), ('dsC', C.dtype)])
        src['dsA'], src['dsB'], src['dsC'] = A, B, C

    def build(ds):
        df = DLISFile()
        lf = df.add_logical_file()
        lf.add_origin('O', file_set_number=1, creation_time='2020/01/01 00:00:00')
        a = lf.add_channel('A', dataset_name=ds)
        b = lf.add_channel('B', dataset_name='dsB')
        fr = lf.add_frame('F', channels=(a, b))
        return df, lf, a, b, fr

    def wr(df):
        path = fresh_tmp()
        try:
            df.write(path, data=src, input_chunk_size=chunk, output_chunk_size=65536)
            return open(path, 'rb').read()
        finally:
            try:
                os.remove(path)
            except OSError:
                pass
    bad = ''
    try:
        df, lf, a, b, fr = build('dsA')
        wr(df)
        if how == 0:
            a.dataset_name = 'dsC'
        else:
            a2 = lf.add_channel('A', dataset_name='dsC')
            fr.channels.value = [a2, b]
        second = wr(df)
        r = strict.parse_file(second)
        lfv = r['logical_files'][0]
        got = []
        for rec, ob, pos in lfv.iflrs:
            if rec.type == 0:
                num, q = strict.dec_uvari(rec.body, pos)
                got.append(struct.unpack('>i', rec.body[q:q + 4])[0])
        if got != C.tolist():
            bad = f'after re-pointing channel A to dsC the file holds {got}, expected {C.tolist()}'
    except strict.StrictError as e:
        bad = f'strict reader: {e}'
    except Exception as e:
        bad = f'second write raised {type(e).__name__}: {e}'
    return _res(bad, {'rows': n, 'how': how, 'kind': kind})


def replay_second_dtype(p):
    """One specification written twice with data of different dtypes: in the second file the slots decode, under the
    representation code the channel declares, to the second data (cast to that code's dtype)."""
    _quiet()
    from dliswriter import DLISFile
    dt1, dt2, n, cast = p['args'][:4]
    names = ['int8', 'int16', 'int32', 'uint8', 'uint16', 'uint32', 'float32', 'float64']
    codes = {12: '>i1', 13: '>i2', 14: '>i4', 15: '>u1', 16: '>u2', 17: '>u4', 2: '>f4', 7: '>f8'}
    d1 = (np.arange(n) + 3).astype(names[dt1])
    d2 = (np.arange(n) * 2 + 40).astype(names[dt2])
    df = DLISFile()
    lf = df.add_logical_file()
    lf.add_origin('O', file_set_number=1, creation_time='2020/01/01 00:00:00')
    a = lf.add_channel('A', cast_dtype=np.float64 if cast else None)
    lf.add_frame('F', channels=(a,))
    bad = ''
    path = fresh_tmp()
    try:
        df.write(path, data={'A': d1}, output_chunk_size=65536)
        df.write(path, data={'A': d2}, output_chunk_size=65536)
        r = strict.parse_file(open(path, 'rb').read())
        lfv = r['logical_files'][0]
        errs, _ids = strict.check_logical_file(lfv)
        code = None
        for rec, e in lfv.eflrs:
            if e.set_type == 'CHANNEL':
                code = strict.attr_of(e.objects[0][1], 'REPRESENTATION-CODE').value[0]
        if errs:
            bad = '; '.join(errs[:2])
        got = []
        for rec, ob, pos in lfv.iflrs:
            if rec.type == 0 and not bad:
                num, q = strict.dec_uvari(rec.body, pos)
                raw = rec.body[q:]
                dt = np.dtype(codes[code])
                if len(raw) != dt.itemsize:
                    bad = f'channel declared with code {code} ({dt.itemsize} bytes), the slot has {len(raw)} bytes'
                else:
                    got.append(np.frombuffer(raw, dtype=dt)[0])
        if not bad:
            want = d2.astype(np.dtype(codes[code]).newbyteorder('='))
            if [x.tobytes() for x in np.array(got).astype(want.dtype)] != [x.tobytes() for x in want]:
                bad = f'second file: slots decode under code {code} to {got}, the data were {d2.tolist()} ({names[dt2]})'
    except strict.StrictError as e:
        bad = f'strict reader: {e}'
    except (ValueError, RuntimeError, TypeError) as e:
        bad = ''
    finally:
        try:
            os.remove(path)
        except OSError:
            pass
    return _res(bad, {'dtypes': [names[dt1], names[dt2]], 'rows': n})


def replay_cast_index(p):
    """Index channel with a cast dtype: INDEX-MIN / INDEX-MAX of the file against the rows of the file."""
    _quiet()
    from dliswriter import DLISFile
    a, b, c, n, cdi = p['args'][:5]
    cname = ['int8', 'int16', 'uint8', 'uint16'][cdi]
    vals = [a, b, c][:n]
    arr = np.array(vals, dtype=np.int32)
    df = DLISFile()
    lf = df.add_logical_file()
    lf.add_origin('O', file_set_number=1, creation_time='2020/01/01 00:00:00')
    ch = lf.add_channel('IDX', data=arr, cast_dtype=getattr(np, cname))
    lf.add_frame('FR', channels=(ch,), index_type='BOREHOLE-DEPTH')
    path = fresh_tmp()
    bad = ''
    try:
        import warnings
        with warnings.catch_warnings():
            warnings.simplefilter('ignore')
            df.write(path, output_chunk_size=65536)
        data = open(path, 'rb').read()
        at = _frame_attrs(data)
        lfv = strict.parse_file(data)['logical_files'][0]
        rows = []
        for rec, ob, pos in lfv.iflrs:
            if rec.type == 0:
                num, q = strict.dec_uvari(rec.body, pos)
                rows.append(int(np.frombuffer(rec.body[q:], dtype=np.dtype(cname).newbyteorder('>'))[0]))
        if at.get('INDEX-MIN') != min(rows) or at.get('INDEX-MAX') != max(rows):
            bad = (f'INDEX-MIN/INDEX-MAX {at.get("INDEX-MIN")}/{at.get("INDEX-MAX")}, the rows written (int32 {vals} cast to '
                   f'{cname}) are {rows}')
    except strict.StrictError as e:
        bad = f'strict reader: {e}'
    finally:
        try:
            os.remove(path)
        except OSError:
            pass
    return _res(bad, {'source': vals, 'cast': cname}, {'source': vals, 'cast': cname})


def replay_declared_count(p):
    """Declared length of the record sequence against the records it yields (deterministic), on the real package."""
    _quiet()
    from dliswriter import DLISFile
    n1, n2, extra, nf, two = p['args'][:5]
    df = DLISFile()
    lf1 = df.add_logical_file(fh_id='LF1')
    lf1.add_origin('O1', file_set_number=1, creation_time='2020/01/01 00:00:00', set_name='S1')
    c1 = lf1.add_channel('A', data=np.arange(n1, dtype=np.int32), set_name='S1')
    lf1.add_frame('F1', channels=(c1,), set_name='S1')
    for k in range(extra):
        lf1.add_zone('Z' + str(k), set_name='S1')
    last = lf1
    if two:
        lf2 = df.add_logical_file(fh_id='LF2', fh_sequence_number=2)
        lf2.add_origin('O2', file_set_number=1, creation_time='2020/01/01 00:00:00', set_name='S2')
        c2 = lf2.add_channel('B', data=np.arange(n2, dtype=np.int32), set_name='S2')
        lf2.add_frame('F2', channels=(c2,), set_name='S2')
        last = lf2
    if nf > 0:
        nfo = last.add_no_format('N', set_name='S2' if two else 'S1')
        for k in range(nf):
            last.add_no_format_frame_data(nfo, 'ab')
    sized = df.generate_logical_records(chunk_size=None)
    declared = len(sized)
    actual = sum(1 for _ in sized)
    bad = ''
    if declared < actual - 1:
        bad = (f'generate_logical_records declares {declared} records and yields {actual}: the progress bar of '
               f'write_logical_records raises "Value {declared + 1} is too large" when it redraws past its maximum '
               f'(slow, i.e. large, records)')
    return _res(bad, {'declared': declared, 'actual': actual}, {'declared': declared, 'actual': actual, 'two': bool(two)})


def replay_frame_number(p):
    """A FrameData record with the given frame number, built with the real classes and decoded by the strict reader."""
    _quiet()
    from dliswriter.logical_record.eflr_types.frame import FrameItem, FrameSet
    from dliswriter.logical_record.eflr_types.channel import ChannelItem, ChannelSet
    from dliswriter.logical_record.iflr_types.frame_data import FrameData
    n = p['args'][0]
    ch = ChannelItem('C', ChannelSet(), origin_reference=1)
    fr = FrameItem('FR', FrameSet(), channels=(ch,), origin_reference=1)
    row = np.zeros(1, dtype=[('C', '<f8')])
    row['C'] = 2.5
    body = bytes(FrameData(fr, n, row[0], origin_reference=1)._make_body_bytes())
    bad = ''
    try:
        ob, pos = strict.dec_obname(body, 0)
        num, q = strict.dec_uvari(body, pos)
        want_len = 1 if n < 128 else 2 if n < 16384 else 4
        if ob != (1, 0, 'FR') or num != n or q - pos != want_len or body[q:] != struct.pack('>d', 2.5):
            bad = f'frame number {n}: record decodes to frame {ob}, number {num} ({q - pos} bytes), {len(body) - q} slot bytes'
    except strict.StrictError as e:
        bad = f'frame number {n}: {e}'
    return _res(bad, {'frame_number': n, 'body': body.hex()})
