"""Replay of record-order candidates (C09, C16.2) through a real DLISFile.write and the strict reader."""
import io
import sys

import numpy as np

from vf.rp66 import strict
from vf.replay.build import write_and_read

PERM4 = [(a, b, c, d) for a in range(4) for b in range(4) for c in range(4) for d in range(4) if len({a, b, c, d}) == 4]


def replay_order(p):
    sys.stderr = io.StringIO()
    from dliswriter import DLISFile
    perm_i, named_zone, named_channel, o_cfg, nf_first_b = p['args'][:5]
    o_cfg = int(o_cfg)
    two_origins = o_cfg >= 1
    sn1 = 'OS' if o_cfg in (2, 4) else None
    sn2 = 'OS' if o_cfg in (3, 4) else None
    df = DLISFile()
    lf = df.add_logical_file(fh_id='LF0')
    made = {}

    def op_origin():
        lf.add_origin('O1', file_set_number=7, creation_time='2020/01/01 00:00:00', set_name=sn1)
        if two_origins:
            lf.add_origin('O2', file_set_number=7, creation_time='2020/01/01 00:00:00', set_name=sn2)

    def op_chan_frame():
        ch = lf.add_channel('CH', data=np.arange(2, dtype=np.float64), set_name='CS' if named_channel else None)
        lf.add_frame('FR', channels=(ch,))

    def op_zone():
        lf.add_zone('Z', set_name='ZS' if named_zone else None)
        lf.add_zone('Z2')

    def op_noformat():
        a = lf.add_no_format('NA')
        b = lf.add_no_format('NB')
        seq = [(b, 'p1'), (a, 'p2'), (b, 'p3')] if nf_first_b else [(a, 'p1'), (b, 'p2'), (a, 'p3')]
        for o, pl in seq:
            lf.add_no_format_frame_data(o, pl + 'xxxxxxxxxx')
        made['nf'] = [(o.name, (pl + 'xxxxxxxxxx').encode()) for o, pl in seq]

    ops = [op_origin, op_chan_frame, op_zone, op_noformat]
    try:
        for k in PERM4[perm_i]:
            ops[k]()
        data = write_and_read(df)
    except Exception as e:
        return {'reproduced': True, 'ok': False, 'detail': f'raised {type(e).__name__}: {e}'}
    try:
        r = strict.parse_file(data)
    except strict.StrictError as e:
        return {'reproduced': True, 'ok': False, 'detail': f'strict reader: {e}'}
    lfv = r['logical_files'][0]
    errs, ids = strict.check_logical_file(lfv)
    bad = '; '.join(errs[:3])
    if not bad:
        org = lfv.eflrs[1][1]
        if org.objects[0][0][2] != 'O1':
            bad = f'defining origin is {org.objects[0][0]}'
        fid = strict.attr_of(org.objects[0][1], 'FILE-ID')
        fsn = strict.attr_of(org.objects[0][1], 'FILE-SET-NUMBER')
        if not bad and (fid is None or fid.value != ['LF0'] or fsn is None or not fsn.has_value):
            bad = f'FILE-ID {fid.value if fid else None} / FILE-SET-NUMBER missing'
        types = [e.set_type for _r, e in lfv.eflrs]
        n_org = types.count('ORIGIN')
        if not bad and types[1:1 + n_org] != ['ORIGIN'] * n_org:
            bad = f'order of the sets is {types}: an ORIGIN set comes after another set instead of right after the header'
        nf = [(obn[2], rec.body[pos:]) for (rec, obn, pos) in lfv.iflrs if rec.type == 1]
        if not bad and nf != made['nf']:
            bad = f'no-format records {nf} != call order {made["nf"]}'
        kinds = [rec.type for (rec, obn, pos) in lfv.iflrs]
        if not bad and kinds != [1, 1, 1, 0, 0]:
            bad = f'IFLR order {kinds}'
    return {'reproduced': bad != '', 'ok': bad == '', 'detail': bad or 'mandated order holds',
            'sample': {'order': PERM4[perm_i], 'sets': [(e.set_type, e.set_name) for _r, e in lfv.eflrs]}}


def replay_origin_first(p):
    """Any add_* method of LogicalFile as the first call (before the origin) or after it: the file written has the
    FILE-HEADER set, then the ORIGIN set, then the rest (strict reader)."""
    sys.stderr = io.StringIO()
    import inspect
    from dliswriter import DLISFile
    from dliswriter.file.file import LogicalFile
    ai, before, named, second_too = p['args'][:4]
    adders = sorted(n for (n, f) in inspect.getmembers(LogicalFile, inspect.isfunction)
                    if n.startswith('add_') and n not in ('add_origin', 'add_no_format_frame_data'))
    meth = adders[ai]
    df = DLISFile()
    lf = df.add_logical_file(fh_id='LF0')

    def add_obj(nm):
        kw = {}
        if meth == 'add_frame':
            kw['channels'] = (lf.add_channel('C-' + nm, data=np.arange(2, dtype=np.float64)),)
        if meth == 'add_channel':
            kw['data'] = np.arange(2, dtype=np.float64)
        if named:
            kw['set_name'] = 'SN'
        return getattr(lf, meth)(nm, **kw)

    try:
        objs = []
        if before:
            objs.append(add_obj('X1'))
        lf.add_origin('O1', file_set_number=7, creation_time='2020/01/01 00:00:00')
        if not before or second_too:
            objs.append(add_obj('X2'))
        if meth == 'add_channel':
            lf.add_frame('FR', channels=tuple(objs))
        elif meth != 'add_frame':
            ch = lf.add_channel('CH', data=np.arange(2, dtype=np.float64))
            lf.add_frame('FR', channels=(ch,))
        data = write_and_read(df)
    except Exception as e:
        return {'reproduced': True, 'ok': False, 'detail': f'raised {type(e).__name__}: {e}'}
    try:
        r = strict.parse_file(data)
    except strict.StrictError as e:
        return {'reproduced': True, 'ok': False, 'detail': f'strict reader: {e}'}
    lfv = r['logical_files'][0]
    sets = [e.set_type for _r, e in lfv.eflrs]
    bad = ''
    if sets[0] != 'FILE-HEADER' or sets[1] != 'ORIGIN':
        bad = f'{meth} {"before" if before else "after"} add_origin: the file starts with the sets {sets[:3]}'
    elif sets.count('ORIGIN') != 1:
        bad = f'sets {sets}'
    return {'reproduced': bad != '', 'ok': bad == '', 'detail': bad or 'header, origin, then the rest',
            'sample': {'method': meth, 'sets': sets}}
