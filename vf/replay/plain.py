"""Generic replay: run the *same* obligation function concretely on the unmodified package.

VF_PLAIN=1 makes vf.harness.common skip the import hook, the StructShim table and the builtin shims, so the harness
function executes the real dliswriter code with real struct/bytes.  Used for unit-level obligations whose subject *is*
the public function (context manager, converters, registry, checks); file-level obligations have API replays.
"""
import importlib
import io
import os
import sys


def replay_plain(p):
    os.environ['VF_PLAIN'] = '1'
    sys.stderr = io.StringIO()
    target = p.get('target') or ''
    mod, fn = target.rsplit('.', 1)
    m = importlib.import_module(mod)
    f = getattr(m, fn)
    args = p.get('args') or []
    kwargs = p.get('kwargs') or {}
    try:
        v = f(*args, **kwargs)
        exc = None
    except Exception as e:   # the real code raised where the obligation declares no exception
        v, exc = None, f'{type(e).__name__}: {e}'
    if p.get('mode') == 'witness':
        if fn.startswith('wit_'):
            ok = exc is None and bool(v)
        else:
            ok = exc is None and v == 0
        return {'ok': ok, 'detail': exc or f'{fn}{tuple(args)} = {v!r} on the unmodified package', 'sample': {'value': repr(v)}}
    if fn.startswith(('ob_', 'kf_')):
        rep = exc is not None or v != 0
    else:
        rep = exc is not None
    return {'reproduced': rep, 'detail': exc or f'{fn}{tuple(args)} returns rule {v!r} on the unmodified package',
            'argmap': {'args': args, 'rule': v}}
