"""Replays for C06 (and the value part of C05) on the unmodified package: real write_struct, real struct, real str."""
import struct
from datetime import datetime, timezone

from vf.rp66 import strict

INT = [('USHORT', 15, 1, False), ('UNORM', 16, 2, False), ('ULONG', 17, 4, False),
       ('SSHORT', 12, 1, True), ('SNORM', 13, 2, True), ('SLONG', 14, 4, True)]


def _res(p, bad, sample=None, argmap=None):
    r = {'reproduced': bad != '', 'ok': bad == '', 'detail': bad or 'as the standard prescribes'}
    if sample is not None:
        r['sample'] = sample
    if argmap:
        r['argmap'] = argmap
    return r


def _try(fn, *a):
    try:
        return bytes(fn(*a)), None
    except Exception as e:
        return None, e


def _item(origin, copy, name, set_cls=None):
    from dliswriter.logical_record.eflr_types.zone import ZoneItem, ZoneSet
    z = ZoneItem.__new__(ZoneItem)
    object.__setattr__(z, 'name', name)
    object.__setattr__(z, '_origin_reference', origin)
    object.__setattr__(z, '_copy_number', copy)
    object.__setattr__(z, '_parent', ZoneSet())
    return z


def replay_encoding(p):
    from dliswriter.utils.internal.struct_writer import write_struct, write_struct_uvari
    from dliswriter.utils.internal.internal_enums import RepresentationCode as RepC
    import dliswriter.utils.internal.struct_writer as _sw
    for _f in vars(_sw).values():
        if hasattr(_f, 'cache_clear'):
            _f.cache_clear()
    ob = p.get('obligation', '')
    a = p['args']
    UV_EDGES = [0, 127, 128, 16383, 16384, 1073741823, 1073741824, 2147483648, 4294967295, 4294967296]
    INT_EDGES = [-2147483648, -32768, -128, 0, 127, 255, 32767, 65535, 2147483647, 4294967295]
    if ob.endswith('uvari_edges'):
        a = [UV_EDGES[a[0]] + a[1]]
    elif ob.endswith('fixed_int_edges'):
        a = [a[0], INT_EDGES[a[1]] + a[2]]
    elif ob.endswith('obname_edges'):
        a = [UV_EDGES[a[0]] + a[1], a[2], a[3], False]
    if 'fixed_int' in ob:
        name, code, w, signed = INT[a[0]]
        v = a[1]
        lo, hi = (-(1 << (8 * w - 1)), (1 << (8 * w - 1)) - 1) if signed else (0, (1 << 8 * w) - 1)
        b, e = _try(write_struct, RepC(code), v)
        if e is not None:
            bad = '' if not (lo <= v <= hi) and isinstance(e, struct.error) else f'{name}({v}) raised {type(e).__name__}: {e}'
        elif not (lo <= v <= hi):
            bad = f'{name}({v}) out of range but encoded as {b.hex()}'
        else:
            bad = '' if b == v.to_bytes(w, 'big', signed=signed) else f'{name}({v}) -> {b.hex()}'
        return _res(p, bad, {'code': name, 'v': v, 'bytes': b.hex() if b else None}, {'code': name, 'v': v})
    if 'uvari' in ob:
        v = a[0]
        b, e = _try(write_struct, RepC.UVARI, v)
        ok_range = 0 <= v < 2 ** 30
        if e is not None:
            bad = '' if not ok_range else f'UVARI({v}) raised {type(e).__name__}: {e}'
        elif not ok_range:
            bad = f'UVARI({v}) not representable but encoded as {b.hex()}'
        else:
            try:
                got, pos = strict.dec_uvari(b, 0)
                want_len = 1 if v < 128 else 2 if v < 16384 else 4
                bad = '' if (got == v and pos == len(b) == want_len) else f'UVARI({v}) -> {b.hex()} decodes to {got}, {pos} of {len(b)} bytes'
            except strict.StrictError as se:
                bad = f'UVARI({v}) -> {b.hex()}: {se}'
        return _res(p, bad, {'v': v, 'bytes': b.hex() if b else None}, {'v': v})
    if 'status' in ob:
        v = a[0]
        b, e = _try(write_struct, RepC.STATUS, v)
        if e is not None:
            bad = '' if v not in (0, 1) else f'STATUS({v}) raised {e}'
        else:
            bad = '' if v in (0, 1) and b == bytes([v]) else f'STATUS({v}) -> {b.hex()}'
        return _res(p, bad, {'v': v}, {'v': v})
    if 'ident_len' in ob or 'ident_long' in ob or 'ascii_len' in ob:
        n = a[0]
        ident = 'ident' in ob
        code = RepC.IDENT if ident else RepC.ASCII
        limit = 255 if ident else 2 ** 30 - 1
        if n > 2 ** 24:
            # too long to materialise: replay the length-prefix leaf only
            b, e = _try(write_struct_uvari, n)
            bad = '' if (e is not None) == (n > limit) else f'length prefix for {n} characters: {b.hex() if b else e}'
            return _res(p, bad, {'n': n, 'prefix_only': True}, {'n': n})
        s = 'a' * n
        b, e = _try(write_struct, code, s)
        if e is not None:
            bad = '' if n > limit else f'{code.name} of {n} chars raised {type(e).__name__}: {e}'
        elif n > limit:
            bad = f'{code.name} of {n} chars accepted; prefix {b[:4].hex()}'
        else:
            try:
                got, pos = (strict.dec_ident if ident else strict.dec_ascii)(b, 0)
                bad = '' if got == s and pos == len(b) else f'{code.name} of {n} chars: prefix {b[:4].hex()} decodes to {len(got)} chars, {pos} of {len(b)} bytes'
            except strict.StrictError as se:
                bad = f'{code.name} of {n} chars: prefix {b[:4].hex()}: {se}'
        return _res(p, bad, {'n': n, 'prefix': b[:4].hex() if b else None}, {'n': n, 'ident': ident})
    if 'text_len_edges' in ob:
        TL = [1, 8, 16, 32, 64, 100, 128, 200, 255, 256, 512, 1000, 1024, 4096, 16384, 65536]
        ci, n = a[0], TL[a[1]] + a[2]
        ident = ci != 1
        s = ''.join(chr(65 + (i * 7 + n) % 26) for i in range(n))
        if ci == 2:
            from dliswriter.utils.internal.struct_writer import write_struct_ident
            b, e = _try(write_struct_ident, s)
        elif ci >= 3:
            z = _item(1, 0, s)
            b, e = _try(write_struct, RepC.OBJREF if ci == 4 else RepC.OBNAME, z)
            if e is None and n <= 255:
                k = 5 if ci == 4 else 0
                if (ci == 4 and b[:5] != b'\x04ZONE') or b[k:k + 2] != b'\x01\x00':
                    return _res(p, f'object name of {n} chars: reference starts {b[:8].hex()}', {'n': n, 'route': ci}, {'n': n, 'route': ci})
                b = b[k + 2:]
        else:
            b, e = _try(write_struct, RepC.ASCII if ci == 1 else RepC.IDENT, s)
        if e is not None:
            bad = '' if (ident and n > 255) else f'text of {n} chars raised {type(e).__name__}: {e}'
        elif ident and n > 255:
            bad = f'IDENT of {n} chars accepted; prefix {b[:4].hex()}'
        else:
            try:
                got, pos = (strict.dec_ident if ident else strict.dec_ascii)(b, 0)
                bad = '' if got == s and pos == len(b) else f'text of {n} chars as {"IDENT" if ident else "ASCII"}: prefix {b[:4].hex()} decodes to {len(got)} chars, {pos} of {len(b)} bytes'
            except (strict.StrictError, UnicodeDecodeError) as se:
                bad = f'text of {n} chars as {"IDENT" if ident else "ASCII"}: prefix {b[:4].hex()}: {se}'
        return _res(p, bad, {'n': n, 'route': ci, 'prefix': b[:4].hex() if b else None}, {'n': n, 'route': ci})
    if 'text_codepoints' in ob:
        CP = [0, 31, 126, 127, 128, 129, 255, 256, 2047, 2048, 65535, 65536, 1114111]
        c = chr(CP[a[1]])
        a = [a[0], ('A' + c) if a[2] else c]
        ob = 'text_content'
    if 'dtime_year' in ob:
        a = [a[0], 6, 15, 12, 0, 0]
        ob = 'dtime'
    if 'text_content' in ob:
        code = RepC.IDENT if a[0] == 0 else RepC.ASCII
        s = a[1]
        b, e = _try(write_struct, code, s)
        if e is not None:
            bad = '' if not s.isascii() else f'raised {e}'
        elif not s.isascii():
            bad = f'non-ASCII text {s!r} accepted: {b.hex()}'
        else:
            bad = '' if b == bytes([len(s)]) + s.encode('ascii') else f'{s!r} -> {b.hex()}'
        return _res(p, bad, {'s': s, 'bytes': b.hex() if b else None}, {'s': s})
    if 'obname' in ob:
        origin, copy, n, as_objref = a[0], a[1], a[2], bool(a[3])
        z = _item(origin, copy, 'N' * n)
        b, e = _try(write_struct, RepC.OBJREF if as_objref else RepC.OBNAME, z)
        valid = 0 <= origin < 2 ** 30 and 0 <= copy <= 255 and n <= 255
        if e is not None:
            bad = '' if not valid else f'raised {type(e).__name__}: {e}'
        elif not valid:
            bad = f'unrepresentable identity ({origin},{copy},{n} chars) accepted: {b[:8].hex()}'
        else:
            try:
                got, pos = strict.dec_value(24 if as_objref else 23, b, 0)
                want = (('ZONE',) if as_objref else ()) + (origin, copy, 'N' * n)
                bad = '' if got == want and pos == len(b) else f'decodes to {got[:3]}.. using {pos} of {len(b)} bytes'
            except strict.StrictError as se:
                bad = f'{b[:8].hex()}: {se}'
        return _res(p, bad, {'origin': origin, 'copy': copy, 'n': n, 'objref': as_objref},
                    {'origin': origin, 'copy': copy, 'n': n})
    if 'dtime' in ob:
        y, mo, d, h, mi, s = a[:6]
        us = a[6] if len(a) > 6 else 0
        try:
            dt = datetime(y, mo, d, h, mi, s, us, tzinfo=timezone.utc)
        except ValueError:
            return _res(p, '', {'skipped': 'not a calendar date'})
        from datetime import timedelta
        # the same instant expressed in UTC+11 and UTC-11 (crosses day / month / year boundaries for edge instants)
        for off in (11, -11):
            try:
                loc = dt.astimezone(timezone(timedelta(hours=off)))
            except (OverflowError, ValueError):
                continue
            b2, e2 = _try(write_struct, RepC.DTIME, loc)
            b0, e0 = _try(write_struct, RepC.DTIME, dt)
            if (b2 is None) != (b0 is None) or b2 != b0:
                return _res(p, f'{loc.isoformat()} and {dt.isoformat()} are the same instant but encode as {b2.hex() if b2 else e2} / {b0.hex() if b0 else e0}')
        # a battery of instants close to a year / month / day boundary, each expressed with a non-zero UTC offset:
        # the bytes must be those of the UTC instant (a field taken from the object before its conversion shows here)
        for (yy, mm, dd, hh, mn, off) in ((2024, 3, 1, 0, 30, 2), (2023, 12, 31, 23, 30, -5), (2024, 1, 1, 0, 15, 14),
                                          (2021, 7, 31, 20, 0, -9), (2000, 2, 29, 23, 59, -1), (1999, 12, 31, 12, 0, -12)):
            loc = datetime(yy, mm, dd, hh, mn, 7, 250000, tzinfo=timezone(timedelta(hours=off)))
            b2, e2 = _try(write_struct, RepC.DTIME, loc)
            b0, e0 = _try(write_struct, RepC.DTIME, loc.astimezone(timezone.utc))
            if b2 != b0:
                return _res(p, f'{loc.isoformat()} encodes as {b2.hex() if b2 else e2}, its UTC form as {b0.hex() if b0 else e0}')
            if b0 is not None:
                got0, _p0 = strict.dec_dtime(b0, 0)
                u = loc.astimezone(timezone.utc)
                if (got0['year'], got0['month'], got0['day'], got0['hour'], got0['minute']) != (u.year, u.month, u.day, u.hour, u.minute):
                    return _res(p, f'{loc.isoformat()} decodes to {got0}')
        b, e = _try(write_struct, RepC.DTIME, dt)
        if e is not None:
            bad = f'raised {type(e).__name__}: {e}' if 1900 <= y <= 2155 else ''
        else:
            try:
                got, pos = strict.dec_dtime(b, 0)
                ms = min(int(us / 1000 + 0.5) if False else round(us / 1000), 999)
                want = {'year': y, 'tz': 2, 'month': mo, 'day': d, 'hour': h, 'minute': mi, 'second': s}
                bad = '' if all(got[k] == v for k, v in want.items()) and abs(got['ms'] * 1000 - us) <= 500 \
                    and pos == 8 == len(b) else f'{dt.isoformat()} -> {b.hex()} = {got}'
            except strict.StrictError as se:
                bad = f'{dt.isoformat()} -> {b.hex()}: {se}'
        return _res(p, bad, {'dt': dt.isoformat(), 'bytes': b.hex() if b else None})
    return {'error': f'no replay for obligation {ob}'}
