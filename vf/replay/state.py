"""File-level replays for C14 / C18 / C20 candidates (public API of the unmodified package + strict reader)."""
import io
import os
import sys

import numpy as np

from vf.rp66 import strict
from vf.replay.build import fresh_tmp
from vf.replay.plain import replay_plain


def _quiet():
    sys.stderr = io.StringIO()


def _res(bad, sample=None, argmap=None):
    r = {'reproduced': bad != '', 'ok': bad == '', 'detail': bad or 'as specified'}
    if sample is not None:
        r['sample'] = sample
    if argmap is not None:
        r['argmap'] = argmap
    return r


def _write(df, **kw):
    path = fresh_tmp()
    try:
        kw.setdefault('output_chunk_size', 65536)
        df.write(path, **kw)
        with open(path, 'rb') as f:
            return f.read()
    finally:
        try:
            os.remove(path)
        except OSError:
            pass


def _objects(data, set_type, lf_index=0):
    r = strict.parse_file(data)
    lfv = r['logical_files'][lf_index]
    out = []
    for rec, e in lfv.eflrs:
        if e.set_type == set_type:
            out += e.objects
    return out, r


def replay_rename(p):
    _quiet()
    from dliswriter import DLISFile
    new_origin, rename, n1, n2, via_ref = p['args'][:5]
    new_origin = new_origin if 0 < new_origin < 2 ** 20 else 5
    df = DLISFile()
    lf = df.add_logical_file()
    lf.add_origin('O', file_set_number=1, creation_time='2020/01/01 00:00:00', origin_reference=1)
    lf.add_origin('O2', file_set_number=1, creation_time='2020/01/01 00:00:00', origin_reference=new_origin if new_origin != 1 else 9)
    ch = lf.add_channel('C', data=np.arange(2, dtype=np.float64))
    lf.add_frame('F', channels=(ch,))
    z = lf.add_zone('A' * n1)
    par = lf.add_parameter('P', zones=[z], values=[1.0])
    grp = lf.add_group('G', object_list=[z])
    first = _write(df)
    if rename:
        z.name = 'B' * n2
    if new_origin != 1:
        z.origin_reference = new_origin
    second = _write(df)
    want = (new_origin, 0, 'B' * n2 if rename else 'A' * n1)
    bad = ''
    try:
        zones, _ = _objects(second, 'ZONE')
        if zones[0][0] != want:
            bad = f'second write defines the zone as {zones[0][0]}, the object is now {want}'
        pars, _ = _objects(second, 'PARAMETER')
        zr = strict.attr_of(pars[0][1], 'ZONES').value
        if not bad and zr != [want]:
            bad = f'parameter references zone {zr}, expected {[want]}'
        grps, _ = _objects(second, 'GROUP')
        gr = strict.attr_of(grps[0][1], 'OBJECT-LIST').value
        if not bad and gr != [('ZONE',) + want]:
            bad = f'group references {gr}, expected {[("ZONE",) + want]}'
        if not bad and (rename or new_origin != 1) and first == second:
            bad = 'second file byte-identical to the first although the object changed'
    except strict.StrictError as e:
        bad = f'strict reader: {e}'
    return _res(bad, {'identity_after': list(want)})


def replay_cache_key(p):
    _quiet()
    import os
    os.environ['VF_PLAIN'] = '1'
    import vf.harness.c14 as _h
    if not _h.COMBOS:
        return _res('', {'collisions': 0})
    mi, ci, i, j = _h.COMBOS[p['args'][0]]
    VALS = _h.VALS
    a, b = VALS[i], VALS[j]
    if ci <= 1 and not isinstance(a, tuple) and not isinstance(b, tuple):
        # file level: an IDENT attribute without type check (ORIGIN.FILE-TYPE); value a in one file, b in the next
        from dliswriter import DLISFile

        def build(v):
            df = DLISFile()
            lf = df.add_logical_file()
            lf.add_origin('O', file_set_number=1, creation_time='2020/01/01 00:00:00', file_type=v)
            ch = lf.add_channel('C', data=np.arange(2, dtype=np.float64))
            lf.add_frame('F', channels=(ch,))
            return df
        try:
            _write(build(a))
            data = _write(build(b))
            org, _ = _objects(data, 'ORIGIN')
            got = strict.attr_of(org[0][1], 'FILE-TYPE').value
            bad = '' if got == [str(b)] else f'FILE-TYPE {b!r} written after a file with {a!r} decodes as {got}'
        except strict.StrictError as e:
            bad = f'strict reader: {e}'
        except Exception as e:
            bad = ''          # rejected values are not the subject
        return _res(bad, {'first': repr(a), 'second': repr(b)})
    r = replay_plain(p)
    return r


def replay_isolation(p):
    _quiet()
    from dliswriter import DLISFile
    ob = p.get('obligation', '')
    a_ = p['args']
    osn, csn = ('S1', 'S2'), ('S1', 'S2')
    same_id = False
    if 'shared_origin' in ob:
        n1, n2, order, explicit2 = a_[:4]
        osn = ('S', 'S') if a_[4] else (None, None)
        csn = (None, None) if a_[5] else ('S1', 'S2')
        same_id = bool(a_[6]) if len(a_) > 6 else False
    elif 'shared' in ob:
        n1, n2, order, explicit2 = a_[0], a_[0], a_[1], False
    else:
        n1, n2, order, explicit2 = a_[:4]
    NAMES = [None, 'A', 'B']
    df = DLISFile()
    lf1 = df.add_logical_file(fh_id='LF' if same_id else 'LF1')
    lf2 = df.add_logical_file(fh_id='LF' if same_id else 'LF2', fh_sequence_number=2)
    steps = {
        'o1': lambda: lf1.add_origin('O1', file_set_number=1, creation_time='2020/01/01 00:00:00', set_name=osn[0]),
        'o2': lambda: lf2.add_origin('O2', file_set_number=1, creation_time='2020/01/01 00:00:00', set_name=osn[1],
                                     origin_reference=77 if explicit2 else None),
        'z1': lambda: lf1.add_zone('Z1', set_name=NAMES[n1]),
        'z2': lambda: lf2.add_zone('Z2', set_name=NAMES[n2]),
    }
    seqs = [['o1', 'o2', 'z1', 'z2'], ['o1', 'z1', 'o2', 'z2'], ['z2', 'o1', 'o2', 'z1'], ['z1', 'z2', 'o1', 'o2'],
            ['o2', 'z2', 'o1', 'z1'], ['z2', 'z1', 'o2', 'o1']]
    argmap = {'n1': n1, 'n2': n2, 'order': order, 'explicit2': bool(explicit2)}
    try:
        for s in seqs[order]:
            steps[s]()
        for lf, sn in ((lf1, csn[0]), (lf2, csn[1])):
            c = lf.add_channel('C', data=np.arange(2, dtype=np.float64), set_name=sn)
            lf.add_frame('F', channels=(c,), set_name=sn)
        data = _write(df)
    except (ValueError, RuntimeError, TypeError) as e:
        return _res('', {'refused': str(e)[:80]}, argmap)
    bad = ''
    try:
        r = strict.parse_file(data)
        if len(r['logical_files']) != 2:
            bad = f'{len(r["logical_files"])} logical files in the output'
        for i, lfv in enumerate(r['logical_files'][:2]):
            hid = strict.attr_of(lfv.header.objects[0][1], 'ID').value[0].strip()
            if hid != (['LF', 'LF'] if same_id else ['LF1', 'LF2'])[i]:
                bad = bad or f'logical file {i} opens with header {hid!r}'
            errs, ids = strict.check_logical_file(lfv)
            bad = bad or '; '.join(errs[:2])
            names = {k[3] for k in ids if k[0] in ('ZONE', 'ORIGIN')}
            if names != ({'O1', 'Z1'}, {'O2', 'Z2'})[i]:
                bad = bad or f'logical file {i + 1} holds objects {sorted(names)}'
    except strict.StrictError as e:
        bad = f'strict reader: {e}'
    return _res(bad, {'set_names': [NAMES[n1], NAMES[n2]], 'order': seqs[order]}, argmap)


def replay_rejected_api(p):
    _quiet()
    from dliswriter import DLISFile
    which = p['args'][0]
    df = DLISFile()
    lf = df.add_logical_file()
    lf.add_origin('O', file_set_number=1, creation_time='2020/01/01 00:00:00')
    ch = lf.add_channel('C', data=np.arange(2, dtype=np.float64))
    lf.add_frame('F', channels=(ch,))
    try:
        if which == 0:
            lf.add_zone('Z', domain='NOT-A-DOMAIN')
        elif which == 1:
            lf.add_parameter('Z', zones=['not a zone'])
        elif which == 2:
            lf.add_channel('Z', cast_dtype='not a dtype')
        elif which == 3:
            lf.add_channel('Z', data='not an array')
        elif which <= 6:
            lf.add_channel('Z', cast_dtype=[0, '', False][which - 4])
        else:
            arr = np.arange(3, dtype=np.float64) + 700
            kw = [{'cast_dtype': 'not a dtype'}, {'properties': ['NOT-A-PROPERTY']}, {'axis': 'not an axis'}, {'long_name': 5}][which - 7]
            lf.add_channel('Z', data=arr, **kw)
    except (ValueError, RuntimeError, TypeError, AttributeError):
        pass
    else:
        return _res('', {'not_rejected': True})
    if which >= 7:
        # a channel of the same name added afterwards WITHOUT data: the write must fail for want of its data set
        z = lf.add_channel('Z')
        if z.copy_number != 0 or z.dataset_name != 'Z':
            return _res(f'a channel Z added after the rejected add_channel(Z, data=..., <invalid argument>) gets copy number '
                        f'{z.copy_number}, data set name {z.dataset_name!r}', {'which': which})
        lf.add_frame('F2', channels=(z,))
        try:
            data = _write(df)
        except (ValueError, RuntimeError, TypeError, KeyError) as e:
            return _res('', {'later_write': f'refused: {type(e).__name__}'})
        return _res('a channel Z added without data after a rejected add_channel(Z, data=...) is written with the data of '
                    'the rejected call', {'file_bytes': len(data)})
    st = ['ZONE', 'PARAMETER', 'CHANNEL', 'CHANNEL', 'CHANNEL', 'CHANNEL', 'CHANNEL'][which]
    bad = ''
    try:
        later = [lf.add_zone, lf.add_parameter, lf.add_channel, lf.add_channel, lf.add_channel, lf.add_channel, lf.add_channel][which]('Z')
        if later.copy_number != 0:
            bad = f'an object named Z added after the rejected call gets copy number {later.copy_number}'
        if which >= 2:
            later._parent._eflr_item_list.remove(later)
        else:
            later._parent._eflr_item_list.remove(later)
        data = _write(df)
        objs, _r = _objects(data, st)
        if not bad and any(o[0][2] == 'Z' for o in objs):
            bad = f'the rejected {st} object Z is in the file written afterwards'
    except strict.StrictError as e:
        bad = f'strict reader: {e}'
    return _res(bad, {'rejected': st})
