"""Replays for the writer / buffer obligations (C01 glue, C02, C10) on the unmodified package with real files."""
import io
import os
import random
import sys

from vf.rp66 import strict
from vf.replay.build import fresh_tmp


def _quiet():
    sys.stderr = io.StringIO()


def _res(bad, sample=None, argmap=None):
    r = {'reproduced': bad != '', 'ok': bad == '', 'detail': bad or 'as specified'}
    if sample is not None:
        r['sample'] = sample
    if argmap is not None:
        r['argmap'] = argmap
    return r


class _RecWriter:
    def __init__(self):
        self.writes = []
        self.total_size = 0
        self.filename = 'rec'

    def write_bytes(self, bts, size=None):
        self.writes.append((bytes(bts), size))
        self.total_size += size or len(bts)


def replay_buffer_step(p):
    _quiet()
    from dliswriter.file.writer import BufferedOutput
    B, f, s1, s2 = p['args'][:4]
    explicit = bool(p['args'][4]) if len(p['args']) > 4 else False
    if B > 1 << 27:
        B2 = max(f, s1, s2, 1 << 20) + (B % 4096)       # same regime (everything fits), affordable allocation
        if not (f + s1 > B) and not (s1 + s2 > B) and not (f + s1 + s2 > B):
            B = max(B2, f + s1 + s2)
        else:
            return {'reproduced': False, 'ok': True, 'detail': f'buffer of {B} bytes not materialised'}
    rnd = random.Random(1)
    old = bytes(rnd.randrange(256) for _ in range(f))
    a = bytes(rnd.randrange(256) for _ in range(s1))
    b = bytes(rnd.randrange(256) for _ in range(s2))
    w = _RecWriter()
    bo = BufferedOutput(B, w)
    if f:
        bo.add_bytes(old)            # reachable pre-state: f bytes of earlier records in the buffer
    bo.add_bytes(a, s1) if explicit else bo.add_bytes(a)
    bo.add_bytes(b, s2) if explicit else bo.add_bytes(b)
    bo.pass_bytes_to_writer()
    got = b''.join(x for x, _ in w.writes)
    bad = ''
    if got != old + a + b:
        bad = f'writer received {len(got)} bytes, expected {f + s1 + s2} (content differs)'
    pos = 0
    for x, sz in w.writes:
        if sz is not None and sz != len(x):
            bad = bad or f'announced size {sz} != {len(x)}'
        if len(x) > B:
            bad = bad or f'flush of {len(x)} > buffer {B}'
        pos += len(x)
        if pos not in (0, f, f + s1, f + s1 + s2):
            bad = bad or f'flush ends at {pos}, not a record boundary'
    if w.total_size != f + s1 + s2:
        bad = bad or f'total_size {w.total_size} != {f + s1 + s2}'
    return _res(bad, {'B': B, 'fill': f, 'adds': [s1, s2], 'flushes': [len(x) for x, _ in w.writes]})


def replay_bytewriter(p):
    _quiet()
    from dliswriter.file.writer import ByteWriter
    n0, n1, n2, n3 = p['args'][:4]
    explicit = bool(p['args'][4]) if len(p['args']) > 4 else False
    path = fresh_tmp('.bin')
    try:
        with open(path, 'wb') as f:
            f.write(b'P' * n0)
        bw = ByteWriter(path)
        bad = ''
        exp = b''
        for k, n in enumerate((n1, n2, n3)):
            data = bytes([65 + k]) * n
            bw.write_bytes(data, n) if explicit else bw.write_bytes(data)
            exp += data
            with open(path, 'rb') as f:
                cur = f.read()
            if cur != exp:
                bad = bad or f'after write {k + 1}: file has {len(cur)} bytes, expected {len(exp)}'
        if bw.total_size != n1 + n2 + n3:
            bad = bad or f'total_size {bw.total_size} != {n1 + n2 + n3}'
    finally:
        try:
            os.remove(path)
        except OSError:
            pass
    return _res(bad, {'prior': n0, 'writes': [n1, n2, n3]})


def replay_buffer_file(p):
    """Real BufferedOutput + real ByteWriter on a real temporary file (prior content of n0 bytes, or no file)."""
    _quiet()
    from dliswriter.file.writer import BufferedOutput, ByteWriter
    B, had_file, n0, s1, s2, s3, explicit, n_recs = p['args'][:8]
    sizes = [s1, s2, s3][:n_recs]
    if B > 1 << 27:
        B = max(max(sizes), 1 << 20) + (B % 4096) if sum(sizes) <= B else B
        if B > 1 << 27:
            return {'reproduced': False, 'ok': True, 'detail': f'buffer of {B} bytes not materialised'}
        B = max(B, sum(sizes))               # same regime: everything fits
    path = fresh_tmp('.bin')
    bad = ''
    try:
        if had_file:
            with open(path, 'wb') as f:
                f.write(b'P' * n0)
        elif os.path.exists(path):
            os.remove(path)
        bw = ByteWriter(path)
        sul = b'S' * 80
        bw.write_bytes(sul)
        bo = BufferedOutput(B, bw)
        exp = sul
        bounds = [80]
        seen = []
        for k in range(n_recs):
            data = bytes([65 + k]) * sizes[k]
            bo.add_bytes(data, sizes[k]) if explicit else bo.add_bytes(data)
            exp += data
            bounds.append(len(exp))
            with open(path, 'rb') as f:
                cur = f.read()
            seen.append(len(cur))
            if len(cur) not in bounds or cur != exp[:len(cur)]:
                bad = bad or f'after record {k + 1}: the file holds {len(cur)} bytes that are not the label and whole records (boundaries {bounds})'
        bo.pass_bytes_to_writer()
        with open(path, 'rb') as f:
            cur = f.read()
        if cur != exp:
            bad = bad or f'final file has {len(cur)} bytes, expected {len(exp)} (label + {n_recs} records)' + ('' if len(cur) != len(exp) else ': content differs')
        if bw.total_size != len(exp):
            bad = bad or f'total_size {bw.total_size} != {len(exp)}'
    finally:
        try:
            os.remove(path)
        except OSError:
            pass
    return _res(bad, {'B': B, 'prior': n0 if had_file else None, 'records': sizes})


def replay_chunk_size(p):
    _quiet()
    from dliswriter.file.writer import DLISWriter
    vrl, c = p['args'][:2]
    w = DLISWriter('unused', vrl if (20 <= vrl <= 16384 and vrl % 2 == 0) else 8192)
    w._visible_record_length = vrl
    try:
        w._check_output_chunk_size(c)
        ok = True
    except ValueError:
        ok = False
    want = c >= vrl
    return _res('' if ok == want else f'chunk size {c} with vrl {vrl}: accepted={ok}, expected {want}')


class _Rec:
    def __init__(self, body, t, is_eflr):
        self.body, self.t, self.is_eflr = body, t, is_eflr

    def represent_as_bytes(self):
        from dliswriter.logical_record.core.logical_record.logical_record_bytes import LogicalRecordBytes
        return LogicalRecordBytes(self.body, bytes([self.t]), self.is_eflr)


def _write_records(vrl, bodies, chunk):
    """Real DLISWriter + real file; returns (file bytes, sizes on disk after each flush, reported total)."""
    from dliswriter.file.writer import DLISWriter, ByteWriter
    from dliswriter.logical_record.misc.storage_unit_label import StorageUnitLabel
    path = fresh_tmp()
    sizes = []
    orig = ByteWriter.write_bytes

    def spy(self, bts, size=None):
        orig(self, bts, size)
        sizes.append(os.path.getsize(path))

    ByteWriter.write_bytes = spy
    try:
        with open(path, 'wb') as f:
            f.write(b'stale content that must disappear' * 50)
        w = DLISWriter(path, vrl)
        w.write_storage_unit_label(StorageUnitLabel('SET', 1, vrl))
        recs = [_Rec(b, t, e) for (b, t, e) in bodies]
        w.write_logical_records(recs, chunk)
        with open(path, 'rb') as f:
            data = f.read()
        return data, sizes, w._byte_writer.total_size
    finally:
        ByteWriter.write_bytes = orig
        try:
            os.remove(path)
        except OSError:
            pass


def replay_sized(p):
    """Two records handed over as a SizedGenerator with an arbitrary declared length: the file holds both."""
    _quiet()
    from dliswriter.file.writer import DLISWriter
    from dliswriter.logical_record.misc.storage_unit_label import StorageUnitLabel
    from dliswriter.utils.internal.sized_generator import SizedGenerator
    vrl, n1, n2, _a, declared = p['args'][:5]
    cap = vrl - 8
    bodies = []
    rnd = random.Random(7)
    for k, n in enumerate((n1, n2)):
        L = max(1, cap * n - 3) if n else 1
        bodies.append((bytes(rnd.randrange(256) for _ in range(L)), k, k == 0))
    path = fresh_tmp()
    bad = ''
    try:
        w = DLISWriter(path, vrl)
        w.write_storage_unit_label(StorageUnitLabel('SET', 1, vrl))
        recs = [_Rec(b, t, e) for (b, t, e) in bodies]
        w.write_logical_records(SizedGenerator((r for r in recs), declared), 65536)
        data = open(path, 'rb').read()
        sul, vrs, segs = strict.parse_physical(data)
        got = strict.assemble(segs)
        if [(r.is_eflr, r.type, r.body) for r in got] != [(e, t, b) for (b, t, e) in bodies]:
            bad = f'{len(got)} records in the file, {len(bodies)} were handed to the writer (declared length {declared})'
    except strict.StrictError as e:
        bad = f'strict reader: {e}'
    except Exception as e:
        bad = f'write raised {type(e).__name__}: {e}'
    finally:
        try:
            os.remove(path)
        except OSError:
            pass
    return _res(bad, {'vrl': vrl, 'declared': declared, 'records': 2})


def replay_glue(p):
    _quiet()
    a = p['args']
    ob = p.get('obligation', '')
    if 'wiring' in ob:
        vrl, n1, n2 = a[0], a[1], a[2]
        cap = vrl - 8
        L1 = max(1, cap * n1 - 3) if n1 else 1
        L2 = max(1, cap * n2 - 3) if n2 else 1
        chunk = None if (len(a) > 7 and a[7]) else a[6]
    elif 'glue_float' in ob:
        vrl, L1, L2 = a[0], a[1], a[2]
        chunk = [64.0, 1048576.0][a[3]]
    else:
        vrl, L1, L2, chunk = a[0], a[1], a[2], a[3]
        if len(a) > 4 and a[4]:
            chunk = None
    if chunk is not None and chunk > 1 << 27:
        chunk = 1 << 27
    rnd = random.Random(int(os.environ.get('VERIF_SEED', '0') or 0) + 5)
    b1 = bytes(rnd.randrange(256) for _ in range(L1))
    b2 = bytes(rnd.randrange(256) for _ in range(L2))
    if chunk is None:
        chunk = 1 << 22     # the default (2**32) allocates 4 GiB; any value above the file size behaves identically
    try:
        data, sizes, total = _write_records(vrl, [(b1, 0, True), (b2, 1, False)], chunk)
    except Exception as e:
        return _res(f'write raised {type(e).__name__}: {e}', argmap={'vrl': vrl, 'L1': L1, 'L2': L2})
    bad = ''
    try:
        sul, vrs, segs = strict.parse_physical(data)
        recs = strict.assemble(segs)
        if [(r.is_eflr, r.type, r.body) for r in recs] != [(True, 0, b1), (False, 1, b2)]:
            bad = f'reassembled records differ: {[(r.is_eflr, r.type, len(r.body)) for r in recs]}'
        if any(sum(1 for s in segs if s.vr_index == i) != 1 for i in range(len(vrs))):
            bad = bad or 'a visible record does not hold exactly one segment'
        bounds = {80} | {off + ln for off, ln in vrs}
        for s in sizes:
            if s not in bounds:
                bad = bad or f'on-disk size {s} after a flush is not a visible-record boundary'
        for k in range(1, len(sizes)):
            if sizes[k] - sizes[k - 1] > chunk:
                bad = bad or f'flush of {sizes[k] - sizes[k - 1]} bytes exceeds the chunk size {chunk}'
        if total != len(data):
            bad = bad or f'reported total {total} != file size {len(data)}'
    except strict.StrictError as e:
        bad = f'strict reader: {e}'
    return _res(bad, {'vrl': vrl, 'L': [L1, L2], 'chunk': chunk, 'file': len(data), 'flushes': len(sizes)},
                {'vrl': vrl, 'L1': L1, 'L2': L2})


def replay_lr_type(p):
    _quiet()
    from dliswriter.logical_record.core.logical_record.logical_record import LogicalRecord
    import dliswriter.logical_record.eflr_types  # noqa: F401
    from dliswriter.logical_record.iflr_types.frame_data import FrameData  # noqa: F401
    from dliswriter.logical_record.iflr_types.no_format_frame_data import NoFormatFrameData  # noqa: F401
    out, seen, stack = [], set(), [LogicalRecord]
    while stack:
        c = stack.pop()
        for s in c.__subclasses__():
            if s not in seen:
                seen.add(s)
                stack.append(s)
                if isinstance(getattr(s, 'logical_record_type', NotImplemented), int):
                    out.append(s)
    out.sort(key=lambda c: c.__name__)
    i, j = p['args'][:2]
    for c in out:
        c._lr_type_struct = b''
    a, b = out[i], out[j]
    ra, rb, ra2 = bytes(a.lr_type_struct), bytes(b.lr_type_struct), bytes(a.lr_type_struct)
    bad = ''
    if ra != bytes([int(a.logical_record_type)]) or rb != bytes([int(b.logical_record_type)]) or ra2 != ra:
        bad = f'{a.__name__}: {ra.hex()}/{ra2.hex()} (type {int(a.logical_record_type)}), {b.__name__}: {rb.hex()} (type {int(b.logical_record_type)})'
    return _res(bad, {'classes': [a.__name__, b.__name__]})


def replay_write_wiring(p):
    """DLISFile.write with an own label whose maximum differs from the constructor argument: every visible record of
    the real file must respect the maximum declared in the label."""
    _quiet()
    import numpy as np
    from dliswriter import DLISFile
    from dliswriter.logical_record.misc.storage_unit_label import StorageUnitLabel
    mrl_label, mrl_ctor, own_label = p['args'][:3]
    change_after = bool(p['args'][7]) if len(p['args']) > 7 else False
    df = DLISFile(storage_unit_label=StorageUnitLabel('SET', 1, mrl_label), max_record_length=mrl_ctor) if own_label \
        else DLISFile(max_record_length=mrl_label)
    if change_after:
        df.storage_unit_label.max_record_length = mrl_label - 2
    lf = df.add_logical_file()
    lf.add_origin('O', file_set_number=1, creation_time='2020/01/01 00:00:00')
    ch = lf.add_channel('C', data=np.arange(3, dtype=np.float64))
    lf.add_frame('F', channels=(ch,))
    nf = lf.add_no_format('N')
    lf.add_no_format_frame_data(nf, b'x' * 40000)
    path = fresh_tmp()
    bad = ''
    try:
        df.write(path, output_chunk_size=65536)
        strict.parse_file(open(path, 'rb').read())
    except strict.StrictError as e:
        bad = f'strict reader: {e}'
    except Exception as e:
        bad = f'write raised {type(e).__name__}: {e}'
    finally:
        try:
            os.remove(path)
        except OSError:
            pass
    return _res(bad, {'label_max': mrl_label - (2 if change_after else 0), 'ctor_max': mrl_ctor})
