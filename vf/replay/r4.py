"""Replays for the round-4 obligations (vf/harness/r4.py) on the unmodified package."""
import io
import os
import struct
import sys

import numpy as np

from vf.rp66 import strict
from vf.replay.build import fresh_tmp, write_and_read

NAMES = ['int8', 'int16', 'int32', 'uint8', 'uint16', 'uint32', 'float32', 'float64']
CODES = {12: '>i1', 13: '>i2', 14: '>i4', 15: '>u1', 16: '>u2', 17: '>u4', 2: '>f4', 7: '>f8'}


def _quiet():
    sys.stderr = io.StringIO()


def _res(bad, sample=None, argmap=None):
    r = {'reproduced': bad != '', 'ok': bad == '', 'detail': bad or 'as specified'}
    if sample is not None:
        r['sample'] = sample
    if argmap is not None:
        r['argmap'] = argmap
    return r


def _small_file():
    from dliswriter import DLISFile
    df = DLISFile()
    lf = df.add_logical_file()
    lf.add_origin('O', file_set_number=1, creation_time='2020/01/01 00:00:00')
    return df, lf


def replay_sul_rerender(p):
    """File written, label attributes re-assigned, file written again: the second file's label shows the new values."""
    _quiet()
    from dliswriter import DLISFile
    from dliswriter.logical_record.misc.storage_unit_label import StorageUnitLabel
    seq, mrl, seq2, mrl2, ch_seq, ch_mrl, ch_id = p['args'][:7]
    mrl, mrl2 = mrl - mrl % 2, mrl2 - mrl2 % 2
    sul = StorageUnitLabel('ID', seq, mrl)
    df = DLISFile(storage_unit_label=sul)
    lf = df.add_logical_file()
    lf.add_origin('O', file_set_number=1, creation_time='2020/01/01 00:00:00')
    ch = lf.add_channel('C', data=np.arange(2, dtype=np.float64))
    lf.add_frame('F', channels=(ch,))
    bad = ''
    try:
        write_and_read(df)
        if ch_seq:
            sul.sequence_number = seq2
        if ch_mrl:
            sul.max_record_length = mrl2
        if ch_id:
            sul.set_identifier = 'XY'
        data = write_and_read(df)
        want = (f'{seq2 if ch_seq else seq:>4}V1.00RECORD{mrl2 if ch_mrl else mrl:>5}' + ('XY' if ch_id else 'ID').ljust(60)).encode()
        if data[:80] != want:
            bad = f'second file: label {data[:80]!r}, configured {want!r}'
        else:
            strict.parse_file(data)
    except strict.StrictError as e:
        bad = f'strict reader: {e}'
    return _res(bad)


def replay_fh_late(p):
    """Header created with provisional values, completed through its attributes (optionally after a first write)."""
    _quiet()
    from dliswriter import DLISFile
    seq, seq0, ch_seq, ch_id, encode_first = p['args'][:5]
    s = 'AB'
    df = DLISFile()
    lf = df.add_logical_file(fh_id='PRV' if ch_id else s, fh_sequence_number=seq0 if ch_seq else seq)
    if ch_id:
        lf.file_header.header_id = s     # before the origin: FILE-ID is taken from the header
    lf.add_origin('O', file_set_number=1, creation_time='2020/01/01 00:00:00')
    ch = lf.add_channel('C', data=np.arange(2, dtype=np.float64))
    lf.add_frame('F', channels=(ch,))
    bad = ''
    try:
        if encode_first:
            write_and_read(df)
        if ch_seq:
            lf.file_header.sequence_number = seq
        data = write_and_read(df)
        r = strict.parse_file(data)
        lfv = r['logical_files'][0]
        rec, e = lfv.eflrs[0]
        attrs = e.objects[0][1]
        got_seq = strict.attr_of(attrs, 'SEQUENCE-NUMBER').value[0]
        got_id = strict.attr_of(attrs, 'ID').value[0]
        if got_seq != str(seq).rjust(10) or got_id != s.ljust(65):
            bad = f'header written with SEQUENCE-NUMBER {got_seq!r} / ID {got_id.rstrip()!r}; the item says {seq} / {s!r}'
    except strict.StrictError as e:
        bad = f'strict reader: {e}'
    return _res(bad)


def replay_alias(p):
    """A list given to a multi-valued reference / value attribute and changed by the caller afterwards."""
    _quiet()
    import vf.sites as sites
    from vf.replay.items import build_file_with_item
    si, x, s_, arm, how = p['args'][:5]
    (ci, an) = sites.ACTIVE_SITES[si]
    S = sites.ITEM_SETS[ci]
    argmap = {'site': S.__name__ + '.' + an, 'how': how}
    kind = sites.kind_of(getattr(sites.make_item(S), an))
    try:
        df, lf, it, a = build_file_with_item(S, an, None, False, False, False)

        def target(attr, k=0):
            oc = getattr(attr, '_object_class', None)
            from dliswriter.logical_record.core.eflr import EFLRSet
            from dliswriter.logical_record import eflr_types
            set_cls = oc if (oc is not None and oc is not EFLRSet) else eflr_types.ZoneSet
            par = df._eflr_sets.get_or_make_set(set_cls, set_name=None)
            lf._eflr_sets.try_add_set(par)
            return sites.make_item(set_cls, name='T' + str(k), parent=par, origin=lf.default_origin_reference)
        sites.ref_target = target
        if not a.multivalued:
            return _res('', {'skipped': 'single-valued'}, argmap)
        pv = sites.py_values(a, kind, 2, x, s_, arm)
        if pv is None:
            return _res('', {'skipped': 'outside the obligation'}, argmap)
        given = list(pv[0])
        a.value = given
        before = write_and_read(df)
        if how == 0:
            given.append(given[0])
        elif how == 1:
            del given[:]
        else:
            given[0] = given[1]
        after = write_and_read(df)
    except (ValueError, RuntimeError, TypeError) as e:
        return _res('', {'rejected': f'{type(e).__name__}: {e}'[:120]}, argmap)
    bad = '' if after == before else (f'{argmap["site"]}: the file changes when the caller changes the list it had passed '
                                      f'({len(before)} -> {len(after)} bytes)')
    return _res(bad, None, argmap)


def replay_long_list(p):
    _quiet()
    n, pos, x = p['args'][:3]
    if 'edges' in p.get('obligation', ''):
        n, pos, k, d = p['args'][:4]
        x = [-2147483648, 2147483647, 4294967296, -4294967296, 1099511627776, 9223372036854775807, -9223372036854775808, 0][k] + d
    df, lf = _small_file()
    ch = lf.add_channel('C', data=np.arange(2, dtype=np.float64))
    lf.add_frame('F', channels=(ch,))
    vals = [k + 1 for k in range(n)]
    vals[pos] = x
    in_range = -2 ** 31 <= x < 2 ** 31
    try:
        lf.add_axis('AX', coordinates=vals)
        data = write_and_read(df)
    except Exception as e:
        return _res('' if not in_range else f'in-range list refused: {type(e).__name__}: {e}')
    if not in_range:
        try:
            r = strict.parse_file(data)
            got = None
            for rec, e in r['logical_files'][0].eflrs:
                if e.set_type == 'AXIS':
                    got = strict.attr_of(e.objects[0][1], 'COORDINATES').value
            return _res(f'coordinates {vals} written although {x} does not fit SLONG; a reader gets {got}')
        except strict.StrictError as e:
            return _res(f'out-of-range value written; strict reader: {e}')
    try:
        r = strict.parse_file(data)
        for rec, e in r['logical_files'][0].eflrs:
            if e.set_type == 'AXIS':
                got = list(strict.attr_of(e.objects[0][1], 'COORDINATES').value)
                if got != vals:
                    return _res(f'coordinates decode to {got}, assigned {vals}')
    except strict.StrictError as e:
        return _res(f'strict reader: {e}')
    return _res('')


def replay_lookalike(p):
    _quiet()
    import os as _os
    _os.environ['VF_PLAIN'] = '1'
    k, via = p['args'][:2]
    from vf.harness.r4 import NUMERIC_LOOKALIKES
    s = NUMERIC_LOOKALIKES[k]
    df, lf = _small_file()
    ch = lf.add_channel('C', data=np.arange(2, dtype=np.float64))
    lf.add_frame('F', channels=(ch,))
    want = s
    if '.' in s:
        try:
            want = float(s)
        except ValueError:
            pass
    else:
        try:
            want = int(s)
        except ValueError:
            pass
    try:
        lf.add_axis('AX', coordinates=[s])
        data = write_and_read(df)
        r = strict.parse_file(data)
        got = None
        for rec, e in r['logical_files'][0].eflrs:
            if e.set_type == 'AXIS':
                got = strict.attr_of(e.objects[0][1], 'COORDINATES').value[0]
    except strict.StrictError as e:
        return _res(f'strict reader: {e}')
    except (ValueError, TypeError, RuntimeError) as e:
        return _res('', {'rejected': str(e)[:100]})
    ok = type(got) is type(want) and (got == want or (got != got and want != want))
    return _res('' if ok else f'coordinate text {s!r} reaches the reader as {got!r} ({type(got).__name__}), expected {want!r}')


def replay_shared_dataset(p):
    """Two channels on one data set with different casts: every slot decodes, under its channel's declared code, to the
    source values cast directly to that code's dtype."""
    _quiet()
    from dliswriter import DLISFile
    dtS, castA, castB, n, chunk, kind = p['args'][:6]
    base = np.array([0.1, 256.7, -1.9, 70000.3, 1e40][:max(n, 2)] if NAMES[dtS].startswith('float') else [1, 256, 70000, 255, 7][:max(n, 2)])
    with np.errstate(all='ignore'):
        src_col = base.astype(NAMES[dtS])[:n]
    df = DLISFile()
    lf = df.add_logical_file()
    lf.add_origin('O', file_set_number=1, creation_time='2020/01/01 00:00:00')
    a = lf.add_channel('A', cast_dtype=getattr(np, NAMES[castA]) if castA >= 0 else None)
    b = lf.add_channel('B', cast_dtype=getattr(np, NAMES[castB]) if castB >= 0 else None)
    a.dataset_name = 'ds'
    b.dataset_name = 'ds'
    lf.add_frame('F', channels=(a, b))
    if kind == 0:
        src = {'ds': src_col}
    else:
        src = np.zeros(n, dtype=[('ds', src_col.dtype)])
        src['ds'] = src_col
    path = fresh_tmp()
    bad = ''
    try:
        with np.errstate(all='ignore'):
            df.write(path, data=src, input_chunk_size=chunk, output_chunk_size=65536)
        r = strict.parse_file(open(path, 'rb').read())
        lfv = r['logical_files'][0]
        codes = {}
        for rec, e in lfv.eflrs:
            if e.set_type == 'CHANNEL':
                for obn, attrs in e.objects:
                    codes[obn[2]] = strict.attr_of(attrs, 'REPRESENTATION-CODE').value[0]
        dts = [np.dtype(CODES[codes['A']]), np.dtype(CODES[codes['B']])]
        with np.errstate(all='ignore'):
            want = [src_col.astype(dts[0].newbyteorder('=')), src_col.astype(dts[1].newbyteorder('='))]
        row = 0
        for rec, ob, pos in lfv.iflrs:
            if rec.type != 0 or bad:
                continue
            num, q = strict.dec_uvari(rec.body, pos)
            raw = rec.body[q:]
            if len(raw) != dts[0].itemsize + dts[1].itemsize:
                bad = f'row {row}: {len(raw)} bytes of slots, the channels declare {dts[0].itemsize} + {dts[1].itemsize}'
                break
            ga = np.frombuffer(raw[:dts[0].itemsize], dtype=dts[0])[0]
            gb = np.frombuffer(raw[dts[0].itemsize:], dtype=dts[1])[0]
            if ga.tobytes() != want[0][row].astype(dts[0]).tobytes() or gb.tobytes() != want[1][row].astype(dts[1]).tobytes():
                bad = (f'row {row}: slots decode to {ga!r}, {gb!r}; the source value {src_col[row]!r} cast to the channels\' '
                       f'types is {want[0][row]!r}, {want[1][row]!r}')
            row += 1
    except strict.StrictError as e:
        bad = f'strict reader: {e}'
    except (ValueError, RuntimeError, TypeError) as e:
        bad = ''
    finally:
        try:
            os.remove(path)
        except OSError:
            pass
    return _res(bad, {'source': NAMES[dtS], 'casts': [castA, castB]})


def replay_setup_taint(p):
    """A write of an indexed frame whose index column holds edge values (-0.0, inf, denormal): every caller array is
    bit-identical afterwards, for dict / structured / inline sources."""
    _quiet()
    from dliswriter import DLISFile
    kind, n, cast, has_type = p['args'][:4]
    n = n + 2
    idx = np.array([-0.0, 1.0, 2.0, 3.0, 4.0][:n], dtype=np.float64)
    other = np.arange(n * 3, dtype=np.float64).reshape(n, 3)
    bad = ''
    for source in ('dict', 'struct', 'inline'):
        a_src, b_src = idx.copy(), other.copy()
        df = DLISFile()
        lf = df.add_logical_file()
        lf.add_origin('O', file_set_number=1, creation_time='2020/01/01 00:00:00')
        kw = {'cast_dtype': [None, np.float32, np.float64][cast]} if cast else {}
        if source == 'inline':
            a = lf.add_channel('A', data=a_src, **kw)
            b = lf.add_channel('B', data=b_src)
            data = None
        else:
            a = lf.add_channel('A', **kw)
            b = lf.add_channel('B')
            if source == 'dict':
                data = {'A': a_src, 'B': b_src}
            else:
                data = np.zeros(n, dtype=[('A', np.float64), ('B', np.float64, (3,))])
                data['A'], data['B'] = a_src, b_src
                a_src, b_src = data['A'], data['B']
        before = (a_src.tobytes(), b_src.tobytes())
        lf.add_frame('F', channels=(a, b), index_type='BOREHOLE-DEPTH' if has_type else None)
        path = fresh_tmp()
        try:
            import warnings
            with warnings.catch_warnings():
                warnings.simplefilter('ignore')
                df.write(path, data=data, output_chunk_size=65536)
        except Exception as e:
            pass
        finally:
            try:
                os.remove(path)
            except OSError:
                pass
        after = (a_src.tobytes(), b_src.tobytes())
        if after != before and not bad:
            bad = f'{source} source: the caller\'s index column changed from {before[0][:16].hex()}.. to {after[0][:16].hex()}..'
    return _res(bad)
