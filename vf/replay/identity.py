"""Replays for C07 / C18 / C20 candidates through the public API of the unmodified package and the strict reader."""
import io
import sys

import numpy as np

from vf.rp66 import strict
from vf.replay.build import write_and_read


def _quiet():
    sys.stderr = io.StringIO()


def _base(n_lf=1, **kw):
    from dliswriter import DLISFile
    df = DLISFile(**kw)
    lfs = [df.add_logical_file(fh_id='LF' + str(i), fh_sequence_number=i + 1) for i in range(n_lf)]
    return df, lfs


def _finish(lf, tag=''):
    ch = lf.add_channel('CH' + tag, data=np.arange(2, dtype=np.float64))
    lf.add_frame('FR' + tag, channels=(ch,))


def _parse(df):
    data = write_and_read(df)
    r = strict.parse_file(data)
    return r


def _res(bad, sample=None, argmap=None):
    r = {'reproduced': bad != '', 'ok': bad == '', 'detail': bad or 'as specified'}
    if sample is not None:
        r['sample'] = sample
    if argmap is not None:
        r['argmap'] = argmap
    return r


def replay_copy_step(p):
    _quiet()
    names = p['args'][:4]
    df, (lf,) = _base()
    lf.add_origin('O', file_set_number=1, creation_time='2020/01/01 00:00:00')
    _finish(lf)
    try:
        for nm in names:
            lf.add_comment(nm, text=['t'])
        r = _parse(df)
    except strict.StrictError as e:
        return _res(f'strict reader: {e}')
    except Exception as e:
        return _res(f'raised {type(e).__name__}: {e}')
    lfv = r['logical_files'][0]
    errs, _ids = strict.check_logical_file(lfv)
    bad = '; '.join(errs[:2])
    objs = [ob for rec, e in lfv.eflrs if e.set_type == 'COMMENT' for ob, _a in e.objects]
    want = []
    for k, nm in enumerate(names):
        want.append((objs[k][0] if objs else 0, sum(1 for j in range(k) if names[j] == nm), nm))
    if not bad and objs != want:
        bad = f'comment objects {objs} != expected {want}'
    return _res(bad, {'names': names, 'objects': objs})


def replay_identity(p):
    _quiet()
    from dliswriter.logical_record.eflr_types.frame import FrameItem, FrameSet
    from dliswriter.logical_record.eflr_types.no_format import NoFormatItem, NoFormatSet
    from dliswriter.logical_record.iflr_types.frame_data import FrameData
    from dliswriter.logical_record.iflr_types.no_format_frame_data import NoFormatFrameData
    from dliswriter.logical_record.core.attribute.attribute import Attribute
    from dliswriter.utils.internal.internal_enums import RepresentationCode as RepC
    from dliswriter.utils.internal.struct_writer import write_struct
    import dliswriter.utils.internal.struct_writer as _sw
    for _f in vars(_sw).values():
        if hasattr(_f, 'cache_clear'):
            _f.cache_clear()
    origin, copy, n, fn = p['args'][:4]
    name = 'N' * n

    def bare(cls, set_cls):
        it = cls.__new__(cls)
        object.__setattr__(it, 'name', name)
        object.__setattr__(it, '_origin_reference', origin)
        object.__setattr__(it, '_copy_number', copy)
        object.__setattr__(it, '_parent', set_cls())
        return it
    fr = bare(FrameItem, FrameSet)
    ident = (origin, copy, name)
    bad = ''
    try:
        got, pos = strict.dec_obname(bytes(fr.obname), 0)
        if got != ident or pos != len(fr.obname):
            bad = f'object header decodes to {got}'
        a = Attribute('ref', representation_code=RepC.OBNAME)
        a._value = fr
        b = bytes(a.get_as_bytes())
        got, pos = strict.dec_obname(b, 2)
        if not bad and (b[:2] != b'\x25\x17' or got != ident or pos != len(b)):
            bad = f'OBNAME attribute decodes to {got}'
        a = Attribute('ref', representation_code=RepC.OBJREF)
        a._value = fr
        b = bytes(a.get_as_bytes())
        got, pos = strict.dec_value(24, b, 2)
        if not bad and (got != ('FRAME',) + ident or pos != len(b)):
            bad = f'OBJREF attribute decodes to {got}'
        body = bytes(FrameData(fr, fn, [], origin_reference=origin)._make_body_bytes())
        got, pos = strict.dec_obname(body, 0)
        num, pos2 = strict.dec_uvari(body, pos)
        if not bad and (got != ident or num != fn or pos2 != len(body)):
            bad = f'frame data head decodes to {got}, frame number {num}'
        nf = bare(NoFormatItem, NoFormatSet)
        body = bytes(NoFormatFrameData(nf, b'')._make_body_bytes())
        got, pos = strict.dec_obname(body, 0)
        if not bad and (got != ident or pos != len(body)):
            bad = f'no-format head decodes to {got} ({pos} of {len(body)} bytes)'
    except strict.StrictError as e:
        bad = f'strict decoder: {e}'
    except Exception as e:
        bad = f'raised {type(e).__name__}: {e}'
    # file level (small cases): frame defined with that origin; its data records must resolve to it
    if not bad and 0 < origin < 2 ** 20 and copy <= 2 and fn <= 3:
        try:
            df, (lf,) = _base()
            lf.add_origin('O', file_set_number=1, creation_time='2020/01/01 00:00:00', origin_reference=origin)
            for c in range(copy + 1):
                ch = lf.add_channel('C' + str(c), data=np.arange(3, dtype=np.float64))
                lf.add_frame(name, channels=(ch,))
            r = _parse(df)
            errs, _ids = strict.check_logical_file(r['logical_files'][0])
            bad = '; '.join(errs[:2])
        except strict.StrictError as e:
            bad = f'strict reader (file): {e}'
    return _res(bad, {'identity': [origin, copy, n], 'frame_number': fn})


def replay_ref_admissible(p):
    _quiet()
    import vf.sites as sites
    from dliswriter.logical_record.core.attribute.subtypes import EFLRAttribute
    from dliswriter.logical_record.core.eflr import EFLRSet
    ref_sites = []
    for i, S in enumerate(sites.ITEM_SETS):
        it = sites.make_item(S)
        for k, a in it.attributes.items():
            if isinstance(a, EFLRAttribute) and type(a).__name__ == 'EFLRAttribute':
                ref_sites.append((i, k))
    k = p['args'][0]
    ri, ti = k // sites.N_SETS, k % sites.N_SETS
    ci, an = ref_sites[ri]
    it = sites.make_item(sites.ITEM_SETS[ci])
    a = getattr(it, an)
    target = sites.make_item(sites.ITEM_SETS[ti], name='T')
    oc = a._object_class
    admissible = True if (oc is None or oc is EFLRSet) else isinstance(target, oc.item_type)
    try:
        a.value = [target] if a.multivalued else target
        ok = True
    except TypeError:
        ok = False
    bad = '' if ok == admissible else f'{sites.ITEM_SETS[ci].__name__}.{an} accepted={ok} a {type(target).__name__}, admissible={admissible}'
    if ok and not bad:
        v = a.value[0] if a.multivalued else a.value
        if v is not target:
            bad = 'stored value is not the object passed'
    return _res(bad, {'attribute': f'{sites.ITEM_SETS[ci].__name__}.{an}', 'target': type(target).__name__})


def replay_origins(p):
    _quiet()
    r1, r2, zone_pos, zone_ref, second = p['args'][:5]
    df, (lf,) = _base()
    argmap = {'r1': r1, 'r2': r2, 'zone_pos': zone_pos, 'zone_ref': zone_ref, 'second': second}
    try:
        z = None
        if zone_pos == 0:
            z = lf.add_zone('Z', origin_reference=zone_ref or None)
        o1 = lf.add_origin('O1', file_set_number=1, creation_time='2020/01/01 00:00:00', origin_reference=r1 or None)
        if zone_pos == 1:
            z = lf.add_zone('Z', origin_reference=zone_ref or None)
        o2 = lf.add_origin('O2', file_set_number=1, creation_time='2020/01/01 00:00:00', origin_reference=r2 or None) if second else None
        if zone_pos == 2:
            z = lf.add_zone('Z', origin_reference=zone_ref or None)
    except RuntimeError as e:
        clash = second and r2 > 0 and r2 == (r1 if r1 > 0 else 0)
        return _res('' if clash else f'raised {e}', argmap=argmap)
    _finish(lf)
    try:
        r = _parse(df)
    except strict.StrictError as e:
        return _res(f'strict reader: {e}', argmap=argmap)
    lfv = r['logical_files'][0]
    org = [ob for rec, e in lfv.eflrs if e.set_type == 'ORIGIN' for ob, _a in e.objects]
    zone = [ob for rec, e in lfv.eflrs if e.set_type == 'ZONE' for ob, _a in e.objects][0]
    bad = ''
    if r1 > 0 and org[0][0] != r1:
        bad = f'first origin reference {org[0][0]} != explicit {r1}'
    if second and not bad:
        if r2 > 0 and org[1][0] != r2:
            bad = f'second origin reference {org[1][0]} != explicit {r2}'
        elif org[0][0] == org[1][0]:
            bad = f'two origins with reference {org[0][0]}'
    want = zone_ref if zone_ref > 0 else org[0][0]
    if not bad and zone[0] != want:
        bad = f'zone origin {zone[0]}, expected {want}'
    if not bad and zone_ref == 0:
        errs, _ = strict.check_logical_file(lfv)
        bad = '; '.join(errs[:2])
    return _res(bad, {'origins': org, 'zone': zone}, argmap)


def replay_across_sets(p):
    _quiet()
    a = p['args']
    if len(a) == 3:
        same_name, named_a, named_b = a
    else:
        same_name, (named_a, named_b) = True, a[:2]
    df, (lf,) = _base()
    lf.add_origin('O', file_set_number=1, creation_time='2020/01/01 00:00:00')
    _finish(lf)
    lf.add_zone('X', set_name='S1' if named_a else None)
    lf.add_zone('X' if same_name else 'Y', set_name='S2' if named_b else None)
    argmap = {'same_name': bool(same_name), 'named_a': bool(named_a), 'named_b': bool(named_b)}
    try:
        r = _parse(df)
    except strict.StrictError as e:
        return _res(f'strict reader: {e}', argmap=argmap)
    errs, _ids = strict.check_logical_file(r['logical_files'][0])
    dup = [e for e in errs if 'duplicate object identity' in e]
    return _res(dup[0] if dup else '', {'sets': [(e.set_type, e.set_name) for _r, e in r['logical_files'][0].eflrs]}, argmap)
