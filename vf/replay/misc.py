"""Small API-level replays (C09)."""
import io
import sys


def replay_file_header_reject(p):
    sys.stderr = io.StringIO()
    from dliswriter import DLISFile
    seq, n = p['args'][:2]
    df = DLISFile()
    try:
        lf = df.add_logical_file(fh_id='H' * n, fh_sequence_number=seq)
        ok = True
    except ValueError:
        ok = False
    want = n <= 65 and 1 <= seq <= 9999999999
    bad = '' if ok == want else f'add_logical_file(id of {n} chars, sequence {seq}): accepted={ok}, expected {want}'
    if ok and not bad:
        b = bytes(lf.file_header_item._make_attrs_bytes())
        if len(b) != 2 + 10 + 2 + 65 or b[14:] != ('H' * n).ljust(65).encode() or b[2:12] != str(seq).rjust(10).encode():
            bad = f'header attribute bytes {b!r}'
    r = {'reproduced': bad != '', 'ok': bad == '', 'detail': bad or 'as specified'}
    return r


def replay_origin_params(p):
    sys.stderr = io.StringIO()
    import numpy as np
    from dliswriter import DLISFile
    import dliswriter.logical_record.eflr_types.origin as om
    give_fsn, fsn, rnd, give_time, change = p['args'][:5]
    df = DLISFile()
    lf = df.add_logical_file(fh_id='LF0')
    calls = []
    orig = np.random.randint

    def fake(lo, hi=None, *a, **k):
        calls.append((lo, hi))
        return rnd
    np.random.randint = fake
    try:
        o = lf.add_origin('O', file_set_number=fsn if give_fsn else None,
                          creation_time='2020/01/01 00:00:00' if give_time else None)
    finally:
        np.random.randint = orig
    bad = ''
    if give_fsn and (calls or o.file_set_number.value != fsn):
        bad = f'file-set number supplied ({fsn}) but RNG consulted {len(calls)}x / value {o.file_set_number.value}'
    if not give_fsn and (len(calls) != 1 or o.file_set_number.value != rnd):
        bad = f'file-set number not supplied: RNG calls {len(calls)}, value {o.file_set_number.value}'
    if not bad and o.file_id.value != 'LF0':
        bad = f'FILE-ID {o.file_id.value!r}'
    if change == 1:
        o.file_id._value = None
    elif change == 2:
        o.file_id._value = 'OTHER'
    try:
        lf._check_defining_origin_params()
        ok = True
    except ValueError:
        ok = False
    if not bad and ok != (change != 2):
        bad = f'FILE-ID check accepted={ok} with change={change}'
    return {'reproduced': bad != '', 'ok': bad == '', 'detail': bad or 'as specified'}


def replay_name_rule(p):
    """K5 counterexample: a string on which the package's name rule and [A-Z0-9_-]+ disagree (in the mode)."""
    sys.stderr = io.StringIO()
    import re
    from dliswriter import high_compatibility_mode
    from dliswriter.utils.internal.value_checkers import validate_string
    w = p['args'][0]
    with high_compatibility_mode():
        try:
            validate_string(w)
            ok = True
        except ValueError:
            ok = False
    want = re.fullmatch(r'[A-Z0-9_-]+', w) is not None
    bad = '' if ok == want else f'in high-compatibility mode the name {w!r} is accepted={ok}; [A-Z0-9_-]+ says {want}'
    return {'reproduced': bad != '', 'ok': bad == '', 'detail': bad or 'as specified', 'argmap': {'s': w}}
