"""Replays for C01/C02/C10/C15/C16 candidates on the unmodified package (real bytes, real struct, real files)."""
import io
import os
import random
import sys

from vf.rp66 import strict
from vf.replay.build import fresh_tmp


def _quiet():
    # progressbar2 writes to stderr; keep replays silent
    sys.stderr = io.StringIO()


def concrete_seg_rules(body, cap, is_eflr, t, segs):
    """Concrete twin of vf.harness.c01.seg_check on real bytes. Returns '' or a description of the first broken rule."""
    if not segs:
        return 'no segment'
    pos = 0
    n = len(segs)
    for i, (sb, sz) in enumerate(segs):
        sb = bytes(sb)
        if len(sb) != sz:
            return f'segment {i}: len {len(sb)} != announced {sz}'
        if sz % 2 or sz < 16 or sz > cap + 4:
            return f'segment {i}: size {sz} (cap {cap})'
        if (sb[0] << 8 | sb[1]) != sz:
            return f'segment {i}: header length field {(sb[0] << 8 | sb[1])} != {sz}'
        a = sb[2]
        pad = a & 1
        want = (128 if is_eflr else 0) + (64 if i > 0 else 0) + (32 if i < n - 1 else 0)
        if a - pad != want:
            return f'segment {i}: attribute byte {a:#04x}, expected {want:#04x}(+pad)'
        if sb[3] != t:
            return f'segment {i}: type byte {sb[3]} != {t}'
        npad = 0
        if pad:
            npad = sb[-1]
            if npad < 1 or npad > sz - 4:
                return f'segment {i}: pad count {npad}'
        blen = sz - 4 - npad
        if blen < 1:
            return f'segment {i}: empty body'
        if sb[4:4 + blen] != body[pos:pos + blen]:
            return f'segment {i}: body bytes differ from source range [{pos},{pos + blen})'
        pos += blen
    if pos != len(body):
        return f'segments cover {pos} of {len(body)} body bytes'
    return ''


def replay_segments(p):
    """args: [L, cap, is_eflr, t?]"""
    _quiet()
    from dliswriter.logical_record.core.logical_record.logical_record_bytes import LogicalRecordBytes
    a = p['args']
    L, cap, is_eflr = a[0], a[1], bool(a[2]) if len(a) > 2 else False
    t = a[3] if len(a) > 3 else 0
    rnd = random.Random(int(os.environ.get('VERIF_SEED', '0') or 0))
    body = bytes(rnd.randrange(256) for _ in range(L))
    must_not_raise = 'writable' in p.get('obligation', '') or 'short' in p.get('obligation', '') \
        or 'small_cap' in p.get('obligation', '')
    argmap = {'L': L, 'cap': cap, 'is_eflr': is_eflr, 't': t}
    try:
        segs = list(LogicalRecordBytes(body, bytes([t]), is_eflr).make_segments(cap))
    except ValueError as e:
        raised = f'ValueError: {e}'
        if p.get('mode') == 'witness':
            return {'ok': False, 'detail': raised, 'argmap': argmap}
        return {'reproduced': must_not_raise, 'detail': raised, 'argmap': argmap}
    bad = concrete_seg_rules(body, cap, is_eflr, t, segs)
    sample = {'L': L, 'cap': cap, 'segments': [[sz, 'first' if i == 0 else '', 'last' if i == len(segs) - 1 else '',
                                                'pad' if bytes(sb)[2] & 1 else ''] for i, (sb, sz) in enumerate(segs)]}
    if p.get('mode') == 'witness':
        return {'ok': bad == '', 'detail': bad, 'sample': sample, 'argmap': argmap}
    return {'reproduced': bad != '', 'detail': bad or 'segments well-formed on the real code', 'sample': sample,
            'argmap': argmap}


def replay_file_noformat(p):
    """File-level replay: a real DLISFile with max_record_length = cap + 8 and one no-format record whose body
    (4-byte reference + payload) is L bytes; judged by the strict reader.  args: [L, cap, ...]"""
    _quiet()
    from dliswriter import DLISFile
    import numpy as np
    a = p['args']
    L, cap = a[0], a[1]
    argmap = {'L': L, 'cap': cap, 'vrl': cap + 8}
    if L < 4:
        return {'reproduced': False, 'detail': 'body shorter than a reference cannot be built through the API',
                'argmap': argmap, 'ok': True}
    rnd = random.Random(int(os.environ.get('VERIF_SEED', '0') or 0) + 1)
    payload = bytes(rnd.randrange(256) for _ in range(L - 4))
    path = fresh_tmp()
    try:
        try:
            df = DLISFile(max_record_length=cap + 8)
            lf = df.add_logical_file()
            lf.add_origin('O', file_set_number=1, creation_time='2020/01/01 00:00:00')
            ch = lf.add_channel('C', data=np.arange(2, dtype=np.float64))
            lf.add_frame('F', channels=(ch,))
            nf = lf.add_no_format('N')
            lf.add_no_format_frame_data(nf, payload)
            df.write(path, output_chunk_size=65536)
        except Exception as e:
            d = f'{type(e).__name__}: {e}'
            if p.get('mode') == 'witness':
                return {'ok': False, 'detail': d, 'argmap': argmap}
            return {'reproduced': True, 'detail': 'write raised ' + d, 'argmap': argmap}
        with open(path, 'rb') as f:
            data = f.read()
    finally:
        try:
            os.remove(path)
        except OSError:
            pass
    try:
        r = strict.parse_file(data)
    except strict.StrictError as e:
        d = f'strict reader: {e}'
        if p.get('mode') == 'witness':
            return {'ok': False, 'detail': d, 'argmap': argmap}
        return {'reproduced': True, 'detail': d, 'argmap': argmap}
    nof = [(rec, ob, pos) for lfv in r['logical_files'] for (rec, ob, pos) in lfv.iflrs if rec.type == 1]
    ok = len(nof) == 1 and nof[0][0].body[nof[0][2]:] == payload
    d = '' if ok else f'no-format record body differs: {len(nof)} records, payload {len(payload)} bytes'
    sample = {'vrl': cap + 8, 'L': L, 'file_bytes': len(data), 'visible_records': len(r['visible_records'])}
    if p.get('mode') == 'witness':
        return {'ok': ok, 'detail': d, 'sample': sample, 'argmap': argmap}
    return {'reproduced': not ok, 'detail': d or 'file well-formed and payload intact', 'sample': sample,
            'argmap': argmap}


def replay_seg_and_file(p):
    """Unit-level replay first; if the unit is fine, the file-level one (IFLR only)."""
    r = replay_segments(p)
    if p.get('mode') == 'witness':
        if not r.get('ok'):
            return r
        a = p['args']
        if a[0] >= 4 and a[0] <= 70000 and not (len(a) > 2 and a[2]):
            r2 = replay_file_noformat(p)
            r2.setdefault('sample', {})
            if isinstance(r2['sample'], dict):
                r2['sample']['unit'] = r.get('sample')
            return r2
        return r
    if r.get('reproduced'):
        return r
    a = p['args']
    if a[0] >= 4 and a[0] <= 70000 and not (len(a) > 2 and a[2]):
        return replay_file_noformat(p)
    return r


def replay_vr_wrapper(p):
    _quiet()
    from dliswriter.file.writer import DLISWriter
    vrl, size, explicit = p['args'][:3]
    w = DLISWriter('unused', vrl)
    body = bytes(size)
    try:
        vr = w._make_visible_record(body, size) if explicit else w._make_visible_record(body)
    except ValueError as e:
        bad = '' if size + 4 > vrl else f'raised {e} although size+4={size + 4} <= {vrl}'
        return {'reproduced': bad != '', 'ok': bad == '', 'detail': bad or 'rejected as it should'}
    bad = ''
    if size + 4 > vrl:
        bad = f'accepted size+4={size + 4} > vrl={vrl}'
    elif bytes(vr) != (size + 4).to_bytes(2, 'big') + b'\xff\x01' + body:
        bad = 'visible record bytes differ from UNORM(len) FF 01 body'
    return {'reproduced': bad != '', 'ok': bad == '', 'detail': bad or 'as specified'}


def replay_vrl_accept(p):
    _quiet()
    from dliswriter.file.writer import DLISWriter
    v = p['args'][0]
    try:
        DLISWriter._check_visible_record_length(v)
        ok = True
    except ValueError:
        ok = False
    want = 20 <= v <= 16384 and v % 2 == 0
    return {'reproduced': ok != want, 'ok': ok == want, 'detail': f'accepted={ok} expected={want}'}


def replay_sul(p):
    _quiet()
    from dliswriter.logical_record.misc.storage_unit_label import StorageUnitLabel
    ob = p.get('obligation', '')
    a = p['args']
    if 'ctor' in ob:
        try:
            StorageUnitLabel('X', 1, a[0])
            ok = True
        except ValueError:
            ok = False
        want = a[0] <= 16384
        return {'reproduced': ok != want, 'ok': ok == want, 'detail': f'accepted={ok} expected={want}'}
    if 'numbers' in ob:
        seq, mrl, ident = a[0], a[1], 'ID'
    else:
        seq, mrl, ident = 1, 8192, a[0]
    sul = StorageUnitLabel.__new__(StorageUnitLabel)
    sul.sequence_number, sul.set_identifier, sul.max_record_length = seq, ident, mrl
    try:
        b = bytes(sul.represent_as_bytes().bts)
    except (ValueError, UnicodeEncodeError) as e:
        should = seq > 9999 or mrl > 99999 or len(ident) > 60 or not ident.isascii()
        return {'reproduced': not should, 'ok': should, 'detail': f'raised {type(e).__name__}: {e}'}
    want = (str(seq).rjust(4) + 'V1.00' + 'RECORD' + str(mrl).rjust(5) + ident.ljust(60)).encode('ascii')
    bad = '' if b == want and len(b) == 80 else f'label {b!r} != {want!r}'
    return {'reproduced': bad != '', 'ok': bad == '', 'detail': bad or 'label as specified', 'sample': b.decode('ascii', 'replace')}
