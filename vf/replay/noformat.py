"""Replay of no-format candidates (C16) through a real DLISFile.write and the strict reader."""
import io
import os
import random
import sys

import numpy as np

from vf.rp66 import strict
from vf.replay.build import write_and_read


def replay_noformat(p):
    sys.stderr = io.StringIO()
    from dliswriter import DLISFile
    ob = p.get('obligation', '')
    a = p['args']
    rnd = random.Random(int(os.environ.get('VERIF_SEED', '0') or 0) + 16)
    if 'text' in ob:
        origin, copy, n, payloads = 1, 0, 2, [a[0]]
    elif 'short' in ob:
        origin, copy, n, m = 1, 0, a[0], a[1]
        payloads = [bytes(rnd.randrange(256) for _ in range(m))]
    else:
        origin, copy, n, m, kind = a[:5]
        m = min(m, 300000)
        raw = bytes(rnd.randrange(256) for _ in range(m))
        payloads = [raw if kind == 0 else bytearray(raw) if kind == 1 else ''.join(chr(b % 128) for b in raw)]
        origin = origin if 0 < origin < 2 ** 30 else 1
        copy = min(copy, 3)
    name = 'N' * n
    df = DLISFile()
    lf = df.add_logical_file()
    lf.add_origin('ORIGIN', file_set_number=1, creation_time='2020/01/01 00:00:00', origin_reference=origin)
    ch = lf.add_channel('C', data=np.arange(2, dtype=np.float64))
    lf.add_frame('F', channels=(ch,))
    try:
        objs = [lf.add_no_format(name) for _ in range(copy + 1)]
        nf = objs[-1]
        other = lf.add_no_format('OTHER')
        seq = []
        for pl in payloads:
            lf.add_no_format_frame_data(other, b'before')
            lf.add_no_format_frame_data(nf, pl)
            seq += [('OTHER', b'before'), (name, pl)]
        data = write_and_read(df)
    except Exception as e:
        return {'reproduced': True, 'ok': False, 'detail': f'raised {type(e).__name__}: {e}'}
    try:
        r = strict.parse_file(data)
    except strict.StrictError as e:
        return {'reproduced': True, 'ok': False, 'detail': f'strict reader: {e}'}
    got = [(obn, rec.body[pos:]) for lfv in r['logical_files'] for (rec, obn, pos) in lfv.iflrs if rec.type == 1]
    want = [((origin, copy if nm == name else 0, nm), pl.encode('ascii') if isinstance(pl, str) else bytes(pl)) for nm, pl in seq]
    bad = '' if got == want else f'no-format records differ: got {[(o, len(b)) for o, b in got]} want {[(o, len(b)) for o, b in want]}'
    return {'reproduced': bad != '', 'ok': bad == '', 'detail': bad or 'payloads come back exactly, in order',
            'sample': {'name_len': n, 'payload_len': len(want[-1][1]), 'records': len(got)}}


def replay_noformat_rename(p):
    """File written once; the NO-FORMAT object renamed / moved to a second origin / the record re-pointed; written
    again: every no-format record of the second file refers to an object defined in that file (strict reader) and
    carries its payload."""
    sys.stderr = io.StringIO()
    from dliswriter import DLISFile
    origin, origin2, n, n2, m, rename, retarget = p['args'][:7]
    m = min(m, 100000)
    origin = origin if 0 < origin < 2 ** 30 else 1
    origin2 = origin2 if 0 < origin2 < 2 ** 30 else 2
    if origin2 == origin:
        origin2 = origin + 1
    rnd = random.Random(16)
    raw = bytes(rnd.randrange(256) for _ in range(m))
    df = DLISFile()
    lf = df.add_logical_file()
    lf.add_origin('ORIGIN', file_set_number=1, creation_time='2020/01/01 00:00:00', origin_reference=origin)
    lf.add_origin('ORIGIN2', file_set_number=2, creation_time='2020/01/01 00:00:00', origin_reference=origin2)
    ch = lf.add_channel('C', data=np.arange(2, dtype=np.float64))
    lf.add_frame('F', channels=(ch,))
    nf = lf.add_no_format('A' * n)
    other = lf.add_no_format('B' * n2, origin_reference=origin2)
    rec = lf.add_no_format_frame_data(nf, raw)
    bad = ''
    try:
        write_and_read(df)
        if retarget:
            rec.no_format_object = other
            want = (origin2, 0, 'B' * n2)
        else:
            if rename:
                nf.name = 'C' * n2
            nf.origin_reference = origin2
            want = (origin2, 0, ('C' * n2) if rename else 'A' * n)
        data = write_and_read(df)
        r = strict.parse_file(data)
        lfv = r['logical_files'][0]
        errs, _ids = strict.check_logical_file(lfv)
        if errs:
            bad = '; '.join(errs[:2])
        got = [(ob, rec_.body[pos:]) for rec_, ob, pos in lfv.iflrs if rec_.type == 1]
        if not bad and (len(got) != 1 or tuple(got[0][0]) != want or got[0][1] != raw):
            bad = f'second file: no-format record under {got[0][0] if got else None}, expected {want}'
    except strict.StrictError as e:
        bad = f'strict reader: {e}'
    return {'reproduced': bad != '', 'ok': bad == '', 'detail': bad or 'second file refers to the current identity'}
