"""Helpers for replays: build small *real* DLIS files with the unmodified package (no hook, no stubs)."""
import os
import tempfile

import numpy as np


def fresh_tmp(suffix='.dlis'):
    d = os.environ.get('VF_TMP') or tempfile.gettempdir()
    fd, p = tempfile.mkstemp(suffix=suffix, prefix='vfreplay_', dir=d)
    os.close(fd)
    return p


def minimal_file(max_record_length=8192, rows=3, **kw):
    """DLISFile with one logical file, one origin, one float64 channel, one frame. Returns (df, lf, ch, fr)."""
    from dliswriter import DLISFile
    df = DLISFile(max_record_length=max_record_length, **kw)
    lf = df.add_logical_file()
    lf.add_origin('ORIGIN', file_set_number=1, creation_time='2020/01/01 00:00:00')
    ch = lf.add_channel('CH', data=np.arange(rows, dtype=np.float64))
    fr = lf.add_frame('FR', channels=(ch,))
    return df, lf, ch, fr


def write_and_read(df, **write_kw):
    p = fresh_tmp()
    try:
        write_kw.setdefault("output_chunk_size", 65536)
        df.write(p, **write_kw)
        with open(p, 'rb') as f:
            return f.read()
    finally:
        try:
            os.remove(p)
        except OSError:
            pass
