"""Replay of item/attribute candidates (C04, C05) through a real DLISFile.write and the strict reader."""
import io
import struct
import sys
from datetime import datetime, timezone

import numpy as np

from vf.rp66 import strict
from vf.replay.build import write_and_read


def _quiet():
    sys.stderr = io.StringIO()


def _expected_concrete(py, code):
    from dliswriter.logical_record.core.eflr import EFLRItem
    if isinstance(py, EFLRItem):
        ob = (py.origin_reference, py.copy_number, py.name)
        return ((py.parent.set_type,) + ob) if code == 24 else ob
    if isinstance(py, datetime):
        u = py.astimezone(timezone.utc)
        return {'year': u.year, 'tz': 2, 'month': u.month, 'day': u.day, 'hour': u.hour, 'minute': u.minute,
                'second': u.second, 'ms': min(round(u.microsecond / 1000), 999)}
    if code in (2, 7):
        return float(py)
    return py


def build_file_with_item(S, an, assign, with_units, named, two):
    """Minimal real file + one (or two same-named) item(s) of set class S created the way LogicalFile.add_* does."""
    from dliswriter import DLISFile
    df = DLISFile()
    lf = df.add_logical_file()
    lf.add_origin('ORIGIN', file_set_number=1, creation_time='2020/01/01 00:00:00')
    ch = lf.add_channel('CHX', data=np.arange(3, dtype=np.float64))
    lf.add_frame('FRX', channels=(ch,))
    name_mode = int(named)
    parent = df._eflr_sets.get_or_make_set(S, set_name=(None, 'SN', None, 'OLD', 'OLD')[name_mode])
    lf._eflr_sets.try_add_set(parent)
    if name_mode >= 2:
        parent.set_name = 'SN' if name_mode in (2, 3) else None
    from vf.sites import make_item
    kw, kw2 = {}, {}
    if S.__name__ == 'FrameSet':
        # a frame needs channels of its own (with data) to be writable
        kw['channels'] = (lf.add_channel('CHY', data=np.arange(3, dtype=np.float64)),)
        kw2['channels'] = (lf.add_channel('CHZ', data=np.arange(3, dtype=np.float64)),)
    it = make_item(S, 'OBJ', parent=parent, origin=lf.default_origin_reference, **kw) if S.__name__ != 'OriginSet' else \
        lf.add_origin('OBJ', file_set_number=2, creation_time='2020/01/01 00:00:00')
    if two:
        make_item(S, 'OBJ', parent=parent, origin=lf.default_origin_reference, **kw2) if S.__name__ != 'OriginSet' else \
            lf.add_origin('OBJ', file_set_number=3, creation_time='2020/01/01 00:00:00')
    a = getattr(it, an)
    return df, lf, it, a


def replay_item(p):
    _quiet()
    import vf.sites as sites
    from dliswriter.logical_record.core.eflr import EFLRItem
    ob = p.get('obligation', '')
    args = p['args']
    if 'set_struct' in ob:
        ci, named, two, si = args[:4]
        cand = [k for k in range(sites.N_SITES) if sites.ACTIVE_SITES[k][0] == ci]
        if not cand:
            return {'reproduced': False, 'ok': True, 'detail': 'class without sites'}
        si, mult, with_units, x, s, arm = cand[si % len(cand)], 1, False, 1, 'a', True
        name_mode = int(named)
        named_final = name_mode in (1, 2, 3)
    else:
        si, mult, with_units, x, s, arm = args[:6]
        named, two = False, False
        named_final = False
    (ci, an) = sites.ACTIVE_SITES[si]
    S = sites.ITEM_SETS[ci]
    argmap = {'site': S.__name__ + '.' + an, 'mult': mult, 'x': x, 's': s, 'arm': arm}
    probe = getattr(sites.make_item(S), an)
    kind = sites.kind_of(probe)
    try:
        # reference targets must live in the same file: build the file first, then the values
        df, lf, it, a = build_file_with_item(S, an, None, with_units, named, two)

        def target(attr, k=0):
            oc = getattr(attr, '_object_class', None)
            from dliswriter.logical_record.core.eflr import EFLRSet
            from dliswriter.logical_record import eflr_types
            set_cls = oc if (oc is not None and oc is not EFLRSet) else eflr_types.ZoneSet
            par = df._eflr_sets.get_or_make_set(set_cls, set_name=None)
            lf._eflr_sets.try_add_set(par)
            return sites.make_item(set_cls, name='T' + str(k), parent=par, origin=lf.default_origin_reference)

        sites.ref_target = target
        units_only = mult == 5
        if units_only:
            if not (with_units and a._units_settable):
                return {'reproduced': False, 'ok': True, 'detail': 'combination outside the obligation', 'argmap': argmap}
            mult = 1
        pv = sites.py_values(a, kind, mult, x, s, arm)
        if pv is None:
            return {'reproduced': False, 'ok': True, 'detail': 'combination outside the obligation', 'argmap': argmap}
        assign, expect = pv
        if not units_only:
            a.value = assign
        else:
            expect = []
        if with_units and a._units_settable:
            from dliswriter.utils.enums import Unit
            a.units = Unit('m') if arm else 'm'
        data = write_and_read(df)
    except (ValueError, RuntimeError, TypeError) as e:
        return {'reproduced': False, 'ok': True, 'detail': f'rejected: {type(e).__name__}: {e}', 'argmap': argmap}
    try:
        r = strict.parse_file(data)
    except strict.StrictError as e:
        return {'reproduced': True, 'ok': False, 'detail': f'strict reader: {e}', 'argmap': argmap}
    lfv = r['logical_files'][0]
    errs, _ids = strict.check_logical_file(lfv)
    if errs:
        return {'reproduced': True, 'ok': False, 'detail': '; '.join(errs[:3]), 'argmap': argmap}
    found = None
    for rec, e in lfv.eflrs:
        if e.set_type == S.set_type and (e.set_name == ('SN' if named_final else None)):
            for obn, attrs in e.objects:
                if obn[2] == 'OBJ' and obn[1] == 0:
                    found = (e, attrs)
            if two and sorted(o[1] for o, _a in e.objects if o[2] == 'OBJ') != [0, 1]:
                return {'reproduced': True, 'ok': False, 'detail': 'copy numbers of the two same-named objects are not 0,1',
                        'argmap': argmap}
    if found is None:
        return {'reproduced': True, 'ok': False, 'detail': f'object OBJ of set {S.set_type} not found in the file',
                'argmap': argmap}
    e, attrs = found
    pa = strict.attr_of(attrs, a.label)
    bad = ''
    if pa is None:
        bad = f'attribute {a.label} missing'
    elif len(expect) == 0:
        if not (pa.absent or (pa.count == 0 and not pa.has_value)):
            bad = f'empty list written as count={pa.count} value={pa.value}'
    else:
        code = sites.expected_code(a, kind, expect[0])
        want = [_expected_concrete(v, code) for v in expect]
        if pa.absent or not pa.has_value:
            bad = f'{a.label}: assigned {assign!r} but decodes as absent'
        elif pa.code != code:
            bad = f'{a.label}: representation code {pa.code}, expected {code}'
        elif list(pa.value) != want:
            bad = f'{a.label}: decodes to {pa.value!r}, assigned {want!r}'
        if not bad:
            u = 'm' if (with_units and a._units_settable) else None
            if pa.units != u:
                bad = f'{a.label}: units {pa.units!r}, expected {u!r}'
    sample = {'site': argmap['site'], 'assigned': repr(assign)[:80], 'decoded': repr(pa.value if pa else None)[:80],
              'file_bytes': len(data)}
    return {'reproduced': bad != '', 'ok': bad == '', 'detail': bad or 'decodes to what was assigned', 'sample': sample,
            'argmap': argmap}


def replay_reassign(p):
    """File level: value 1 assigned, file written, value 2 assigned, file written again - against a fresh file that
    only ever had value 2: byte-identical."""
    _quiet()
    import vf.sites as sites
    si, mult, mult2, x, s_, arm = p['args'][:6]
    (ci, an) = sites.ACTIVE_SITES[si]
    S = sites.ITEM_SETS[ci]
    argmap = {'site': S.__name__ + '.' + an, 'mult': [mult, mult2], 'x': x, 's': s_, 'arm': arm}
    kind = sites.kind_of(getattr(sites.make_item(S), an))

    def build():
        df, lf, it, a = build_file_with_item(S, an, None, False, False, False)

        def target(attr, k=0):
            oc = getattr(attr, '_object_class', None)
            from dliswriter.logical_record.core.eflr import EFLRSet
            from dliswriter.logical_record import eflr_types
            set_cls = oc if (oc is not None and oc is not EFLRSet) else eflr_types.ZoneSet
            par = df._eflr_sets.get_or_make_set(set_cls, set_name=None)
            lf._eflr_sets.try_add_set(par)
            for existing in par.get_all_eflr_items():
                if existing.name == 'T' + str(k):
                    return existing
            return sites.make_item(set_cls, name='T' + str(k), parent=par, origin=lf.default_origin_reference)
        return df, a, target

    try:
        df1, a1, t1 = build()
        sites.ref_target = t1
        pv1 = sites.py_values(a1, kind, mult, x, s_, arm)
        pv2 = sites.py_values(a1, kind, mult2, x, s_, not arm)
        if pv1 is None or pv2 is None:
            return {'reproduced': False, 'ok': True, 'detail': 'combination outside the obligation', 'argmap': argmap}
        a1.value = pv1[0]
        write_and_read(df1)
    except (ValueError, RuntimeError, TypeError) as e:
        return {'reproduced': False, 'ok': True, 'detail': f'first value rejected: {type(e).__name__}: {e}', 'argmap': argmap}
    try:
        df2, a2, t2 = build()
        sites.ref_target = t2
        for k in range(3):
            if kind in ('ref', 'refortext'):
                t2(a2, k)                 # the same reference targets exist in both files
        pv2b = sites.py_values(a2, kind, mult2, x, s_, not arm)
        a2.value = pv2b[0]
        fresh = write_and_read(df2)
    except (ValueError, RuntimeError, TypeError) as e:
        return {'reproduced': False, 'ok': True, 'detail': f'second value rejected on a fresh file: {type(e).__name__}: {e}',
                'argmap': argmap}
    try:
        a1.value = pv2[0]
        second = write_and_read(df1)
    except (ValueError, RuntimeError, TypeError) as e:
        return {'reproduced': True, 'ok': False, 'argmap': argmap,
                'detail': f'{argmap["site"]}: {pv2[0]!r} is written by a fresh file but refused after a first write with {pv1[0]!r}: {type(e).__name__}: {e}'}
    bad = ''
    if second != fresh:
        k = next((i for i in range(min(len(second), len(fresh))) if second[i] != fresh[i]), min(len(second), len(fresh)))
        bad = (f'{argmap["site"]}: after a first write with {pv1[0]!r} the value {pv2[0]!r} is written differently from a fresh '
               f'file ({len(second)} vs {len(fresh)} bytes, first difference at byte {k})')
    return {'reproduced': bad != '', 'ok': bad == '', 'detail': bad or 'second write identical to a fresh file', 'argmap': argmap}
