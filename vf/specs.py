"""Obligation tables per property (pure data; importing this module never imports dliswriter)."""

CH_ASSUME = [
    'CrossHair 0.0.110 model of CPython 3.12 (incl. struct.pack / int.to_bytes on ints) and z3 5.1 inside it',
    'stubs within their written contracts (DESIGN 2.3), validated against the real leaves by the self-tests and by '
    'executing every reachability witness on the unmodified package',
    'the only source transformation is the logging / exception-message strip of vf/loader.py',
]
CUTS = ['logger.<level>(...) statements removed; f-string messages of raise folded to constants (vf/loader.py)',
        'functools.lru_cache wrappers bypassed by CrossHair (memoisation transparency is obligation O14.1)']

SEG_FUNCS = ['LogicalRecordBytes.__init__', 'LogicalRecordBytes.make_segment', 'LogicalRecordBytes.make_segments',
             'SegmentAttributes.__init__', 'SegmentAttributes.to_struct', 'SegmentAttributes.has_padding', 'ushort',
             'RepresentationCode.convert']

H = 'vf.harness.'
R = 'vf.replay.'

SPECS = {}

SPECS['C01'] = {
    'functions': SEG_FUNCS + ['DLISWriter._make_visible_record', 'DLISWriter._check_visible_record_length',
                              'StorageUnitLabel.__init__', 'StorageUnitLabel.represent_as_bytes', 'get_ascii_bytes'],
    'stubs': ['StructShim', 'Rope', 'LenStr'],
    'cuts': CUTS, 'assumptions': CH_ASSUME,
    'outside': ['record bodies longer than SEG_K*cap+30 for engine A (K2 covers the loop step for all lengths)',
                'record *content* (C04/C06)'],
    'selftests': ['venv:vf.stubs.selftest:selftest_rope_struct'],
    'obligations': [
        dict(fn=H + 'c01.ob_seg_contract', kind='universal', timeout=(120, 400), replay=R + 'layout:replay_seg_and_file',
             bounds=('every even cap in [12,16376]; 1<=L<=3*cap+30; t in [0,255]; both kinds',
                     'every even cap in [12,16376]; 1<=L<=6*cap+30; t in [0,255]; both kinds'),
             entry=['LogicalRecordBytes.make_segments']),
        dict(fn=H + 'c01.reach_seg_contract', kind='reach', timeout=(60, 60), validate=R + 'layout:replay_seg_and_file'),
        dict(fn=H + 'c01.wit_seg_three_shortened_padded', kind='witness', timeout=(60, 60),
             validate=R + 'layout:replay_seg_and_file'),
        dict(fn=H + 'c01.ob_vr_wrapper', kind='universal', timeout=(60, 120), replay=R + 'layout:replay_vr_wrapper',
             bounds='vrl even in [20,16384]; 1<=size<=20000; explicit/implicit size',
             entry=['DLISWriter._make_visible_record']),
        dict(fn=H + 'c01.reach_vr_wrapper', kind='reach', timeout=(60, 60)),
        dict(fn=H + 'c01.ob_vrl_accept', kind='universal', timeout=(60, 120), replay=R + 'layout:replay_vrl_accept',
             bounds='all integers', entry=['DLISWriter._check_visible_record_length']),
        dict(fn=H + 'c01.reach_vrl_accept', kind='reach', timeout=(60, 60)),
        dict(fn=H + 'c01.ob_sul_numbers', kind='universal', timeout=(120, 300), replay=R + 'layout:replay_sul',
             bounds='1<=sequence<=12000; 20<=max record length<=16384',
             entry=['StorageUnitLabel.represent_as_bytes', 'get_ascii_bytes']),
        dict(fn=H + 'c01.reach_sul_numbers', kind='reach', timeout=(60, 60)),
        dict(fn=H + 'c01.ob_sul_ident', kind='universal', timeout=(120, 300), replay=R + 'layout:replay_sul',
             bounds='symbolic ASCII identifier, len<=3', entry=['StorageUnitLabel.represent_as_bytes']),
        dict(fn=H + 'c01.reach_sul_ident', kind='reach', timeout=(60, 60)),
        dict(fn=H + 'c01.ob_sul_ctor', kind='universal', timeout=(60, 60), replay=R + 'layout:replay_sul',
             bounds='all integers', entry=['StorageUnitLabel.__init__']),
        dict(fn=H + 'c01.reach_sul_ctor', kind='reach', timeout=(60, 60)),
    ],
}

SPECS['C15'] = {
    'functions': SEG_FUNCS,
    'stubs': ['StructShim', 'Rope'], 'cuts': CUTS, 'assumptions': CH_ASSUME,
    'outside': ['bodies longer than SEG_K*cap+30 (K2)'],
    'selftests': ['venv:vf.stubs.selftest:selftest_rope_struct'],
    'obligations': [
        dict(fn=H + 'c01.ob_seg_writable', kind='universal', timeout=(120, 400), replay=R + 'layout:replay_seg_and_file',
             bounds=('every even cap in [12,16376] (= vrl-8 for every accepted vrl); 1<=L<=3*cap+30',
                     'every even cap in [12,16376]; 1<=L<=6*cap+30'),
             entry=['LogicalRecordBytes.make_segments']),
        dict(fn=H + 'c01.reach_seg_writable', kind='reach', timeout=(60, 60), validate=R + 'layout:replay_seg_and_file'),
        dict(fn=H + 'c01.wit_seg_short_body', kind='witness', timeout=(60, 60), validate=R + 'layout:replay_seg_and_file'),
        dict(fn=H + 'c01.wit_seg_small_cap', kind='witness', timeout=(60, 60), validate=R + 'layout:replay_seg_and_file'),
    ],
}
