"""Obligation tables per property (pure data; importing this module never imports dliswriter)."""

CH_ASSUME = [
    'CrossHair 0.0.110 model of CPython 3.12 (incl. struct.pack / int.to_bytes on ints) and z3 5.1 inside it',
    'stubs within their written contracts (DESIGN 2.3), validated against the real leaves by the self-tests and by '
    'executing every reachability witness on the unmodified package',
    'the only source transformation is the logging / exception-message strip of vf/loader.py',
]
CUTS = ['logger.<level>(...) statements removed; f-string messages of raise folded to constants (vf/loader.py)',
        'functools.lru_cache wrappers bypassed by CrossHair (memoisation transparency is obligation O14.1)']

SEG_FUNCS = ['LogicalRecordBytes.__init__', 'LogicalRecordBytes.make_segment', 'LogicalRecordBytes.make_segments',
             'SegmentAttributes.__init__', 'SegmentAttributes.to_struct', 'SegmentAttributes.has_padding', 'ushort',
             'RepresentationCode.convert']

H = 'vf.harness.'
R = 'vf.replay.'

SPECS = {}
K = 'vf.py2smt.kernels.'

SPECS['C01'] = {
    'functions': SEG_FUNCS + ['DLISWriter._make_visible_record', 'DLISWriter._check_visible_record_length',
                              'StorageUnitLabel.__init__', 'StorageUnitLabel.represent_as_bytes', 'get_ascii_bytes'],
    'stubs': ['StructShim', 'Rope', 'LenStr'],
    'cuts': CUTS, 'assumptions': CH_ASSUME,
    'outside': ['record bodies longer than SEG_K*cap+30 for engine A (K2 covers the loop step for all lengths)',
                'record *content* (C04/C06)'],
    'selftests': ['venv:vf.stubs.selftest:selftest_rope_struct'],
    'obligations': [
        dict(fn=H + 'c01.ob_seg_contract', kind='universal', timeout=(120, 400), replay=R + 'layout:replay_seg_and_file',
             bounds=('every even cap in [12,16376]; 1<=L<=3*cap+30; t in [0,255]; both kinds',
                     'every even cap in [12,16376]; 1<=L<=6*cap+30; t in [0,255]; both kinds'),
             entry=['LogicalRecordBytes.make_segments']),
        dict(fn=K + 'k2_segment_step', kind='smt', engine='smt', timeout=(300, 300), replay=R + 'layout:replay_seg_and_file',
             bounds='ALL body lengths and capacities (LIA over Z): inductive step of the splitting loop + make_segment arithmetic',
             entry=['LogicalRecordBytes.make_segments', 'LogicalRecordBytes.make_segment']),
        dict(fn=H + 'c01.reach_seg_contract', kind='reach', timeout=(60, 60), validate=R + 'layout:replay_seg_and_file'),
        dict(fn=H + 'c01.wit_seg_three_shortened_padded', kind='witness', timeout=(60, 60),
             validate=R + 'layout:replay_seg_and_file'),
        dict(fn=H + 'c01.ob_vr_wrapper', kind='universal', timeout=(60, 120), replay=R + 'layout:replay_vr_wrapper',
             bounds='vrl even in [20,16384]; 1<=size<=20000; explicit/implicit size',
             entry=['DLISWriter._make_visible_record']),
        dict(fn=H + 'c01.reach_vr_wrapper', kind='reach', timeout=(60, 60)),
        dict(fn=H + 'c01.ob_vrl_accept', kind='universal', timeout=(60, 120), replay=R + 'layout:replay_vrl_accept',
             bounds='all integers', entry=['DLISWriter._check_visible_record_length']),
        dict(fn=H + 'c01.reach_vrl_accept', kind='reach', timeout=(60, 60)),
        dict(fn=H + 'c01.ob_sul_numbers', kind='universal', timeout=(120, 300), replay=R + 'layout:replay_sul',
             bounds='1<=sequence<=12000; 20<=max record length<=16384',
             entry=['StorageUnitLabel.represent_as_bytes', 'get_ascii_bytes']),
        dict(fn=H + 'c01.reach_sul_numbers', kind='reach', timeout=(60, 60)),
        dict(fn=H + 'c01.ob_sul_ident', kind='universal', timeout=(120, 300), replay=R + 'layout:replay_sul',
             bounds='symbolic ASCII identifier, len<=3', entry=['StorageUnitLabel.represent_as_bytes']),
        dict(fn=H + 'c01.reach_sul_ident', kind='reach', timeout=(60, 60)),
        dict(fn=H + 'c01.ob_sul_ctor', kind='universal', timeout=(60, 60), replay=R + 'layout:replay_sul',
             bounds='all integers', entry=['StorageUnitLabel.__init__']),
        dict(fn=H + 'c01.reach_sul_ctor', kind='reach', timeout=(60, 60)),
    ],
}

SPECS['C15'] = {
    'functions': SEG_FUNCS,
    'stubs': ['StructShim', 'Rope'], 'cuts': CUTS, 'assumptions': CH_ASSUME,
    'outside': ['bodies longer than SEG_K*cap+30 (K2)'],
    'selftests': ['venv:vf.stubs.selftest:selftest_rope_struct'],
    'obligations': [
        dict(fn=H + 'c01.ob_seg_writable', kind='universal', timeout=(120, 400), replay=R + 'layout:replay_seg_and_file',
             bounds=('every even cap in [12,16376] (= vrl-8 for every accepted vrl); 1<=L<=3*cap+30',
                     'every even cap in [12,16376]; 1<=L<=6*cap+30'),
             entry=['LogicalRecordBytes.make_segments']),
        dict(fn=K + 'k2_segment_step', kind='smt', engine='smt', timeout=(300, 300), replay=R + 'layout:replay_seg_and_file',
             bounds='ALL body lengths and capacities (LIA over Z): inductive step of the splitting loop + make_segment arithmetic',
             entry=['LogicalRecordBytes.make_segments', 'LogicalRecordBytes.make_segment']),
        dict(fn=H + 'c01.reach_seg_writable', kind='reach', timeout=(60, 60), validate=R + 'layout:replay_seg_and_file'),
        dict(fn=H + 'c01.wit_seg_short_body', kind='witness', timeout=(60, 60), validate=R + 'layout:replay_seg_and_file'),
        dict(fn=H + 'c01.wit_seg_small_cap', kind='witness', timeout=(60, 60), validate=R + 'layout:replay_seg_and_file'),
    ],
}

K = 'vf.py2smt.kernels.'
SMT_ASSUME = ['py2smt translation of the named kernel (validated on every run against the real function on boundary '
              'inputs); z3 4.8.12 and cvc5 1.0.3 both answer unsat']

ENC = R + 'encoding:replay_encoding'
SPECS['C06'] = {
    'functions': ['write_struct', 'write_struct_uvari', 'write_struct_ascii', 'write_struct_ident', 'write_struct_status',
                  'write_struct_obname', 'write_struct_objref', 'write_struct_dtime', 'RepresentationCode.convert',
                  'EFLRItem.obname'],
    'stubs': ['StructShim', 'Rope', 'LenStr', 'FakeDT'], 'cuts': CUTS, 'assumptions': CH_ASSUME + SMT_ASSUME,
    'outside': ['FSINGL/FDOUBL bit patterns (struct.pack float kernels; only the format-table entries are checked)',
                'non-ASCII rejection is a call-site contract: every text encoder must call .encode("ascii") with '
                'strict errors; CPython\'s encoder is the trusted primitive',
                'local-time interpretation of naive datetimes (C library / environment)'],
    'selftests': ['venv:vf.stubs.selftest:selftest_rope_struct', 'venv:vf.stubs.selftest:selftest_format_table'],
    'obligations': [
        dict(fn=H + 'c06.ob_fixed_int', kind='universal', timeout=(60, 120), replay=ENC, bounds='6 integer codes x all integers',
             entry=['write_struct', 'RepresentationCode.convert']),
        dict(fn=H + 'c06.reach_fixed_int', kind='reach', timeout=(60, 60), validate=ENC),
        dict(fn=H + 'c06.ob_uvari', kind='universal', timeout=(60, 120), replay=ENC, bounds='all integers', entry=['write_struct_uvari']),
        dict(fn=H + 'c06.reach_uvari', kind='reach', timeout=(60, 60), validate=ENC),
        dict(fn=H + 'c06.wit_uvari_4byte', kind='witness', timeout=(60, 60), validate=ENC),
        dict(fn=H + 'c06.ob_status', kind='universal', timeout=(60, 120), replay=ENC, bounds='all integers', entry=['write_struct_status']),
        dict(fn=H + 'c06.reach_status', kind='reach', timeout=(60, 60), validate=ENC),
        dict(fn=H + 'c06.ob_ident_len', kind='universal', timeout=(60, 120), replay=ENC, bounds='0<=len<=70000 (abstract content)',
             entry=['write_struct_ident']),
        dict(fn=H + 'c06.reach_ident_len', kind='reach', timeout=(60, 60), validate=ENC),
        dict(fn=H + 'c06.wit_ident_long', kind='witness', timeout=(60, 60), validate=ENC),
        dict(fn=H + 'c06.ob_ascii_len', kind='universal', timeout=(60, 120), replay=ENC, bounds='0<=len<=1.2e9 (abstract content)',
             entry=['write_struct_ascii']),
        dict(fn=H + 'c06.reach_ascii_len', kind='reach', timeout=(60, 60), validate=ENC),
        dict(fn=H + 'c06.ob_text_content', kind='universal', timeout=(120, 300), replay=ENC, bounds='symbolic ASCII text, len<=3; IDENT and ASCII',
             entry=['write_struct_ident', 'write_struct_ascii']),
        dict(fn=H + 'c06.reach_text_content', kind='reach', timeout=(60, 60), validate=ENC),
        dict(fn=H + 'c06.ob_obname', kind='universal', timeout=(120, 300), replay=ENC,
             bounds='origin, copy over all integers; name length 0..300; OBNAME and OBJREF', entry=['write_struct_obname', 'write_struct_objref']),
        dict(fn=H + 'c06.reach_obname', kind='reach', timeout=(60, 60), validate=ENC),
        dict(fn=H + 'c06.ob_dtime', kind='universal', timeout=(120, 300), replay=ENC,
             bounds='year 1900..2155, month 1..12, day 1..31, h/m/s full range; millisecond = K3', entry=['write_struct_dtime']),
        dict(fn=H + 'c06.reach_dtime', kind='reach', timeout=(60, 60), validate=ENC),
        dict(fn=K + 'k1_uvari', kind='smt', engine='smt', timeout=(300, 300), replay=ENC, bounds='all integers (LIA)', entry=['write_struct_uvari']),
        dict(fn=K + 'k3_dtime_ms', kind='smt', engine='smt', timeout=(600, 600), replay=ENC, bounds='0<=microsecond<=999999, IEEE-754 double',
             entry=['write_struct_dtime']),
    ],
}
