"""Obligation tables per property (pure data; importing this module never imports dliswriter)."""

CH_ASSUME = [
    'CrossHair 0.0.110 model of CPython 3.12 (incl. struct.pack / int.to_bytes on ints) and z3 5.1 inside it',
    'stubs within their written contracts (DESIGN 2.3), validated against the real leaves by the self-tests and by '
    'executing every reachability witness on the unmodified package',
    'the only source transformation is the logging / exception-message strip of vf/loader.py',
]
CUTS = ['logger.<level>(...) statements removed; f-string messages of raise folded to constants (vf/loader.py)',
        'functools.lru_cache wrappers bypassed by CrossHair (memoisation transparency is obligation O14.1)']

SEG_FUNCS = ['LogicalRecordBytes.__init__', 'LogicalRecordBytes.make_segment', 'LogicalRecordBytes.make_segments',
             'SegmentAttributes.__init__', 'SegmentAttributes.to_struct', 'SegmentAttributes.has_padding', 'ushort',
             'RepresentationCode.convert']

H = 'vf.harness.'
R = 'vf.replay.'

SPECS = {}
K = 'vf.py2smt.kernels.'

SPECS['C01'] = {
    'functions': SEG_FUNCS + ['DLISWriter._make_visible_record', 'DLISWriter._check_visible_record_length',
                              'StorageUnitLabel.__init__', 'StorageUnitLabel.represent_as_bytes', 'get_ascii_bytes'],
    'stubs': ['StructShim', 'Rope', 'LenStr'],
    'cuts': CUTS, 'assumptions': CH_ASSUME,
    'outside': ['record bodies longer than SEG_K*cap+30 for engine A (K2 covers the loop step for all lengths)',
                'record *content* (C04/C06)'],
    'selftests': ['venv:vf.stubs.selftest:selftest_rope_struct'],
    'obligations': [
        dict(fn=H + 'c01.ob_seg_contract', kind='universal', timeout=(120, 400), replay=R + 'layout:replay_seg_and_file',
             bounds=('every even cap in [12,16376]; 1<=L<=3*cap+30; t in [0,255]; both kinds',
                     'every even cap in [12,16376]; 1<=L<=6*cap+30; t in [0,255]; both kinds'),
             entry=['LogicalRecordBytes.make_segments']),
        dict(fn=K + 'k2_segment_step', kind='smt', engine='smt', timeout=(300, 300), replay=R + 'layout:replay_seg_and_file',
             bounds='ALL body lengths and capacities (LIA over Z): inductive step of the splitting loop + make_segment arithmetic',
             entry=['LogicalRecordBytes.make_segments', 'LogicalRecordBytes.make_segment']),
        dict(fn=H + 'c01.reach_seg_contract', kind='reach', timeout=(60, 60), validate=R + 'layout:replay_seg_and_file'),
        dict(fn=H + 'c01.wit_seg_three_shortened_padded', kind='witness', timeout=(60, 60),
             validate=R + 'layout:replay_seg_and_file'),
        dict(fn=H + 'c01.ob_vr_wrapper', kind='universal', timeout=(60, 120), replay=R + 'layout:replay_vr_wrapper',
             bounds='vrl even in [20,16384]; 1<=size<=20000; explicit/implicit size',
             entry=['DLISWriter._make_visible_record']),
        dict(fn=H + 'c01.reach_vr_wrapper', kind='reach', timeout=(60, 60)),
        dict(fn=H + 'c01.ob_vrl_accept', kind='universal', timeout=(60, 120), replay=R + 'layout:replay_vrl_accept',
             bounds='all integers', entry=['DLISWriter._check_visible_record_length']),
        dict(fn=H + 'c01.reach_vrl_accept', kind='reach', timeout=(60, 60)),
        dict(fn=H + 'c01.ob_sul_numbers', kind='universal', timeout=(120, 300), replay=R + 'layout:replay_sul',
             bounds='1<=sequence<=12000; 20<=max record length<=16384',
             entry=['StorageUnitLabel.represent_as_bytes', 'get_ascii_bytes']),
        dict(fn=H + 'c01.reach_sul_numbers', kind='reach', timeout=(60, 60)),
        dict(fn=H + 'c01.ob_sul_ident', kind='universal', timeout=(120, 300), replay=R + 'layout:replay_sul',
             bounds='symbolic ASCII identifier, len<=3', entry=['StorageUnitLabel.represent_as_bytes']),
        dict(fn=H + 'c01.reach_sul_ident', kind='reach', timeout=(60, 60)),
        dict(fn=H + 'c01.ob_sul_ctor', kind='universal', timeout=(60, 60), replay=R + 'layout:replay_sul',
             bounds='all integers', entry=['StorageUnitLabel.__init__']),
        dict(fn=H + 'c01.reach_sul_ctor', kind='reach', timeout=(60, 60)),
    ],
}

SPECS['C15'] = {
    'functions': SEG_FUNCS,
    'stubs': ['StructShim', 'Rope'], 'cuts': CUTS, 'assumptions': CH_ASSUME,
    'outside': ['bodies longer than SEG_K*cap+30 (K2)'],
    'selftests': ['venv:vf.stubs.selftest:selftest_rope_struct'],
    'obligations': [
        dict(fn=H + 'c01.ob_seg_writable', kind='universal', timeout=(120, 400), replay=R + 'layout:replay_seg_and_file',
             bounds=('every even cap in [12,16376] (= vrl-8 for every accepted vrl); 1<=L<=3*cap+30',
                     'every even cap in [12,16376]; 1<=L<=6*cap+30'),
             entry=['LogicalRecordBytes.make_segments']),
        dict(fn=K + 'k2_segment_step', kind='smt', engine='smt', timeout=(300, 300), replay=R + 'layout:replay_seg_and_file',
             bounds='ALL body lengths and capacities (LIA over Z): inductive step of the splitting loop + make_segment arithmetic',
             entry=['LogicalRecordBytes.make_segments', 'LogicalRecordBytes.make_segment']),
        dict(fn=H + 'c01.reach_seg_writable', kind='reach', timeout=(60, 60), validate=R + 'layout:replay_seg_and_file'),
        dict(fn=H + 'c01.wit_seg_short_body', kind='witness', timeout=(60, 60), validate=R + 'layout:replay_seg_and_file'),
        dict(fn=H + 'c01.wit_seg_small_cap', kind='witness', timeout=(60, 60), validate=R + 'layout:replay_seg_and_file'),
    ],
}

K = 'vf.py2smt.kernels.'
SMT_ASSUME = ['py2smt translation of the named kernel (validated on every run against the real function on boundary '
              'inputs); z3 4.8.12 and cvc5 1.0.3 both answer unsat']

ENC = R + 'encoding:replay_encoding'
SPECS['C06'] = {
    'functions': ['write_struct', 'write_struct_uvari', 'write_struct_ascii', 'write_struct_ident', 'write_struct_status',
                  'write_struct_obname', 'write_struct_objref', 'write_struct_dtime', 'RepresentationCode.convert',
                  'EFLRItem.obname'],
    'stubs': ['StructShim', 'Rope', 'LenStr', 'FakeDT'], 'cuts': CUTS, 'assumptions': CH_ASSUME + SMT_ASSUME,
    'outside': ['FSINGL/FDOUBL bit patterns (struct.pack float kernels; only the format-table entries are checked)',
                'non-ASCII rejection is a call-site contract: every text encoder must call .encode("ascii") with '
                'strict errors; CPython\'s encoder is the trusted primitive',
                'local-time interpretation of naive datetimes (C library / environment)'],
    'selftests': ['venv:vf.stubs.selftest:selftest_rope_struct', 'venv:vf.stubs.selftest:selftest_format_table'],
    'obligations': [
        dict(fn=H + 'c06.ob_fixed_int', kind='universal', timeout=(60, 120), replay=ENC, bounds='6 integer codes x all integers',
             entry=['write_struct', 'RepresentationCode.convert']),
        dict(fn=H + 'c06.reach_fixed_int', kind='reach', timeout=(60, 60), validate=ENC),
        dict(fn=H + 'c06.ob_uvari', kind='universal', timeout=(60, 120), replay=ENC, bounds='all integers', entry=['write_struct_uvari']),
        dict(fn=H + 'c06.reach_uvari', kind='reach', timeout=(60, 60), validate=ENC),
        dict(fn=H + 'c06.wit_uvari_4byte', kind='witness', timeout=(60, 60), validate=ENC),
        dict(fn=H + 'c06.ob_status', kind='universal', timeout=(60, 120), replay=ENC, bounds='all integers', entry=['write_struct_status']),
        dict(fn=H + 'c06.reach_status', kind='reach', timeout=(60, 60), validate=ENC),
        dict(fn=H + 'c06.ob_ident_len', kind='universal', timeout=(60, 120), replay=ENC, bounds='0<=len<=70000 (abstract content)',
             entry=['write_struct_ident']),
        dict(fn=H + 'c06.reach_ident_len', kind='reach', timeout=(60, 60), validate=ENC),
        dict(fn=H + 'c06.wit_ident_long', kind='witness', timeout=(60, 60), validate=ENC),
        dict(fn=H + 'c06.ob_ascii_len', kind='universal', timeout=(60, 120), replay=ENC, bounds='0<=len<=1.2e9 (abstract content)',
             entry=['write_struct_ascii']),
        dict(fn=H + 'c06.reach_ascii_len', kind='reach', timeout=(60, 60), validate=ENC),
        dict(fn=H + 'c06.ob_text_content', kind='universal', timeout=(120, 300), replay=ENC, bounds='symbolic ASCII text, len<=3; IDENT and ASCII',
             entry=['write_struct_ident', 'write_struct_ascii']),
        dict(fn=H + 'c06.reach_text_content', kind='reach', timeout=(60, 60), validate=ENC),
        dict(fn=H + 'c06.ob_obname', kind='universal', timeout=(120, 300), replay=ENC,
             bounds='origin, copy over all integers; name length 0..300; OBNAME and OBJREF', entry=['write_struct_obname', 'write_struct_objref']),
        dict(fn=H + 'c06.reach_obname', kind='reach', timeout=(60, 60), validate=ENC),
        dict(fn=H + 'c06.ob_dtime', kind='universal', timeout=(120, 300), replay=ENC,
             bounds='year 1900..2155, month 1..12, day 1..31, h/m/s full range; millisecond = K3', entry=['write_struct_dtime']),
        dict(fn=H + 'c06.reach_dtime', kind='reach', timeout=(60, 60), validate=ENC),
        dict(fn=H + 'c06.ob_uvari_edges', kind='universal', timeout=(120, 120), replay=ENC, bounds='+-2 around every UVARI threshold (0, 127/128, 16383/16384, 2**30, 2**31, 2**32): enumeration', entry=['write_struct_uvari']),
        dict(fn=H + 'c06.reach_uvari_edges', kind='reach', timeout=(60, 60), validate=ENC),
        dict(fn=H + 'c06.ob_fixed_int_edges', kind='universal', timeout=(300, 300), replay=ENC, bounds='+-1 around every range edge of the six integer codes: enumeration', entry=['write_struct']),
        dict(fn=H + 'c06.ob_obname_edges', kind='universal', timeout=(300, 300), replay=ENC, bounds='origin +-1 around every UVARI threshold x copy, name length 254..256: enumeration', entry=['write_struct_obname']),
        dict(fn=K + 'k1_uvari', kind='smt', engine='smt', timeout=(300, 300), replay=ENC, bounds='all integers (LIA)', entry=['write_struct_uvari']),
        dict(fn=K + 'k3_dtime_ms', kind='smt', engine='smt', timeout=(600, 600), replay=ENC, bounds='0<=microsecond<=999999, IEEE-754 double',
             entry=['write_struct_dtime']),
    ],
}

IO = R + 'io:'
GLUE_FUNCS = ['DLISWriter.write_logical_records', 'DLISWriter._make_visible_record', 'DLISWriter._check_output_chunk_size',
              'BufferedOutput.__init__', 'BufferedOutput.add_bytes', 'BufferedOutput.pass_bytes_to_writer',
              'ByteWriter.write_bytes', 'ByteWriter.total_size']
_glue = [
    dict(fn=H + 'c10.ob_wiring', kind='universal', timeout=(120, 300), replay=IO + 'replay_glue',
         bounds='every even vrl in [20,16384]; 0..3 segments per record, two records; segment sizes 16..vrl-4; any chunk size',
         entry=['DLISWriter.write_logical_records']),
    dict(fn=H + 'c10.reach_wiring', kind='reach', timeout=(60, 60), validate=IO + 'replay_glue'),
    dict(fn=H + 'c10.ob_sized_wiring', kind='universal', timeout=(120, 300), replay=IO + 'replay_sized',
         bounds='two records of 0..3 segments handed over as SizedGenerator with declared length 2..6 (equal to or more than the records); every even vrl',
         entry=['DLISWriter.write_logical_records', 'SizedGenerator.__iter__', 'SizedGenerator.__len__']),
    dict(fn=H + 'c10.reach_sized_wiring', kind='reach', timeout=(60, 60), validate=IO + 'replay_sized'),
    dict(fn=H + 'c10.ob_glue', kind='universal', timeout=(500, 2400), replay=IO + 'replay_glue',
         bounds=('vrl even in [20,64]; L1<=vrl+12, L2<=vrl-8; chunk in [vrl,3*vrl] (monolithic wiring check)',
                 'vrl even in [20,128]; L1,L2<=vrl+12; chunk in [vrl,3*vrl]'),
         entry=['DLISWriter.write_logical_records', 'LogicalRecordBytes.make_segments', 'BufferedOutput.add_bytes']),
    dict(fn=H + 'c10.reach_glue', kind='reach', timeout=(120, 120), validate=IO + 'replay_glue'),
    dict(fn=H + 'c10.wit_glue_multi', kind='witness', timeout=(120, 120), validate=IO + 'replay_glue'),
    dict(fn=H + 'c10.ob_glue_float', kind='universal', timeout=(500, 1200), replay=IO + 'replay_glue',
         bounds='chunk size a float with zero decimal part (64.0, 1048576.0: with and without intermediate flushes); vrl in 20..48 step 4 (thorough: step 2), one per shard; L1<=vrl+12, L2 as ob_glue', shards=(8, 15),
         entry=['DLISWriter.write_logical_records', 'DLISWriter._check_output_chunk_size', 'BufferedOutput.__init__', 'BufferedOutput.pass_bytes_to_writer']),
    dict(fn=H + 'c10.reach_glue_float', kind='reach', timeout=(120, 120), validate=IO + 'replay_glue'),
]
_buffer = [
    dict(fn=H + 'c10.ob_buffer_step', kind='universal', timeout=(120, 300), replay=IO + 'replay_buffer_step',
         bounds='buffer 20..2**33, any fill, two adds of 20..16384 bytes, final flush', entry=['BufferedOutput.add_bytes']),
    dict(fn=H + 'c10.reach_buffer_step', kind='reach', timeout=(60, 60), validate=IO + 'replay_buffer_step'),
    dict(fn=H + 'c10.wit_buffer_two_flushes', kind='witness', timeout=(60, 60), validate=IO + 'replay_buffer_step'),
    dict(fn=H + 'c10.ob_buffer_file', kind='universal', timeout=(200, 400), replay=IO + 'replay_buffer_file',
         bounds='real BufferedOutput + real ByteWriter over the file model: buffer 20..2**33, no file / prior file of 0..100000 bytes, label + 1..3 records of 20..16384 bytes: file == label + records after the last flush, a whole number of records after every close',
         entry=['BufferedOutput.__init__', 'BufferedOutput.add_bytes', 'BufferedOutput.pass_bytes_to_writer', 'ByteWriter.__init__', 'ByteWriter.write_bytes']),
    dict(fn=H + 'c10.reach_buffer_file', kind='reach', timeout=(60, 60), validate=IO + 'replay_buffer_file'),
    dict(fn=H + 'c10.ob_bytewriter', kind='universal', timeout=(120, 300), replay=IO + 'replay_bytewriter',
         bounds='prior content 0..1e6 bytes; three writes of 1..1e6 bytes; explicit/implicit size', entry=['ByteWriter.write_bytes']),
    dict(fn=H + 'c10.reach_bytewriter', kind='reach', timeout=(60, 60), validate=IO + 'replay_bytewriter'),
    dict(fn=H + 'c10.ob_chunk_size', kind='universal', timeout=(60, 120), replay=IO + 'replay_chunk_size',
         bounds='all integers', entry=['DLISWriter._check_output_chunk_size']),
    dict(fn=H + 'c10.reach_chunk_size', kind='reach', timeout=(60, 60)),
]
_lrtype = [
    dict(fn=H + 'c10.ob_lr_type', kind='universal', timeout=(300, 300), replay=IO + 'replay_lr_type',
         bounds='all ordered pairs of the logical record classes found by introspection (finite, exhaustive)',
         entry=['LRMeta.lr_type_struct']),
    dict(fn=H + 'c10.reach_lr_type', kind='reach', timeout=(120, 120)),
]
IO_STUBS = ['StructShim', 'Rope', 'RopeArray', 'MemWriter', 'FakeFS', 'identity progressbar']
SPECS['C01']['obligations'] += _glue
SPECS['C01']['functions'] += GLUE_FUNCS
SPECS['C01']['stubs'] += IO_STUBS

SPECS['C02'] = {
    'functions': SEG_FUNCS + GLUE_FUNCS + ['LRMeta.lr_type_struct', 'LogicalRecord.represent_as_bytes'],
    'stubs': IO_STUBS, 'cuts': CUTS, 'assumptions': CH_ASSUME + SMT_ASSUME,
    'outside': ['byte-for-byte equality relies on Python bytes slicing/concatenation (trusted primitive): the solver '
                'proves which source ranges end up where', 'more than two records per run (wiring is per record)'],
    'selftests': ['venv:vf.stubs.selftest:selftest_rope_struct'],
    'obligations': [
        dict(fn=H + 'c01.ob_seg_contract', kind='universal', timeout=(120, 400), replay=R + 'layout:replay_seg_and_file',
             bounds=SPECS['C01']['obligations'][0]['bounds'], entry=['LogicalRecordBytes.make_segments']),
        dict(fn=H + 'c01.reach_seg_contract', kind='reach', timeout=(60, 60), validate=R + 'layout:replay_seg_and_file'),
        dict(fn=H + 'c01.wit_seg_three_shortened_padded', kind='witness', timeout=(60, 60), validate=R + 'layout:replay_seg_and_file'),
        dict(fn=K + 'k2_segment_step', kind='smt', engine='smt', timeout=(300, 300), replay=R + 'layout:replay_seg_and_file',
             bounds='ALL body lengths and capacities (LIA over Z)', entry=['LogicalRecordBytes.make_segments']),
    ] + _glue + _lrtype,
}

SPECS['C10'] = {
    'functions': GLUE_FUNCS + ['SourceDataWrapper.make_chunked_generator', 'MultiFrameData.__next__'],
    'stubs': IO_STUBS, 'cuts': CUTS, 'assumptions': CH_ASSUME,
    'outside': ['float-valued output_chunk_size (float % 1 is outside engine A; integral floats are exercised by replays only)',
                'input_chunk_size independence is obligation O3.1/O3.2 (C03) and is listed there',
                'the operating system honouring open(..., "wb"/"ab")'],
    'selftests': ['venv:vf.stubs.selftest:selftest_rope_struct', 'venv:vf.stubs.selftest:selftest_memio'],
    'obligations': _buffer + _glue,
}

SPECS['C16'] = {
    'functions': ['NoFormatFrameData.__init__', 'NoFormatFrameData._make_body_bytes', 'LogicalRecord.represent_as_bytes',
                  'write_struct_obname', 'EFLRItem.obname', 'LogicalFile.add_no_format_frame_data', 'DLISFile.generator'],
    'stubs': ['StructShim', 'Rope', 'BytesRope/BytearrayRope', 'LenStr'], 'cuts': CUTS, 'assumptions': CH_ASSUME,
    'outside': ['payload byte values (content abstract: the solver proves that exactly the payload range follows the '
                'reference)', 'survival through segmentation is C02'],
    'selftests': ['venv:vf.stubs.selftest:selftest_rope_struct'],
    'obligations': [
        dict(fn=H + 'c16.ob_noformat_body', kind='universal', timeout=(120, 300), replay=R + 'noformat:replay_noformat',
             bounds=('origin<2**30, copy<=255, name 1..255 chars, payload 0..40000 bytes; bytes/bytearray/str',
                     'payload up to 2**30 bytes'), entry=['NoFormatFrameData._make_body_bytes']),
        dict(fn=H + 'c16.reach_noformat_body', kind='reach', timeout=(60, 60), validate=R + 'noformat:replay_noformat'),
        dict(fn=H + 'c16.ob_noformat_rename', kind='universal', timeout=(120, 300), replay=R + 'noformat:replay_noformat_rename',
             bounds='serialised once, then the object renamed (names 1..255) / moved to another origin (<2**30) / the record re-pointed; payload 0..40000 bytes',
             entry=['NoFormatFrameData._make_body_bytes', 'EFLRItem.obname', 'EFLRItem.__setattr__']),
        dict(fn=H + 'c16.reach_noformat_rename', kind='reach', timeout=(60, 60), validate=R + 'noformat:replay_noformat_rename'),
        dict(fn=H + 'c16.wit_noformat_short', kind='witness', timeout=(60, 60), validate=R + 'noformat:replay_noformat'),
        dict(fn=H + 'c16.ob_noformat_text', kind='universal', timeout=(120, 300), replay=R + 'noformat:replay_noformat',
             bounds='symbolic ASCII text, len<=3', entry=['NoFormatFrameData._make_body_bytes']),
        dict(fn=H + 'c16.reach_noformat_text', kind='reach', timeout=(60, 60), validate=R + 'noformat:replay_noformat'),
        dict(fn=H + 'c09.ob_order', kind='universal', timeout=(600, 1200), shards=(12, 12), replay=R + 'order:replay_order',
             bounds='24 orders of (origin, channel+frame, zones, no-format+3 payloads over 2 objects) x named sets x 5 origin configurations (one/two origins, named/unnamed origin sets) (finite, exhaustive)',
             entry=['DLISFile.generator', 'LogicalFile.add_no_format_frame_data']),
        dict(fn=H + 'c09.reach_order', kind='reach', timeout=(120, 120), validate=R + 'order:replay_order'),
    ],
}

ITEM_FUNCS = ['Attribute.get_as_bytes', 'Attribute._write_for_body', 'Attribute._write_for_template', 'Attribute._write_values',
              'Attribute.count', 'Attribute.flatten_list', 'Attribute.representation_code', 'Attribute._guess_repr_code',
              'Attribute.inferred_representation_code', 'Attribute.convert_value', 'Attribute.converter', 'Attribute.units',
              'EFLRSet._make_set_component_bytes', 'EFLRSet._make_template_bytes', 'EFLRSet._make_body_bytes',
              'EFLRSet.register_item', 'EFLRItem.__init__', 'EFLRItem.make_item_body_bytes', 'EFLRItem._make_attrs_bytes',
              'EFLRItem._compute_copy_number', 'EFLRItem.set_attributes', 'EFLRItem.attributes',
              'EFLRAttribute._convert_value', 'EFLROrTextAttribute._convert_value', 'EFLROrTextAttribute._guess_repr_code',
              'DTimeAttribute._convert_value', 'NumericAttribute._convert_number', 'NumericAttribute._int_parser',
              'NumericAttribute._float_parser', 'StatusAttribute.convert_status', 'TextAttribute._check_string',
              'ReprCodeConverter.determine_repr_code_from_value', 'write_struct']
SPECS['C04'] = {
    'functions': ITEM_FUNCS + ['FileHeaderSet._make_template_bytes', 'FileHeaderItem._make_attrs_bytes'],
    'stubs': ['StructShim', 'Rope', 'kint/kfloat (lemma K4)', 'ksetattr'], 'cuts': CUTS + [
        'items are constructed from concrete arguments outside CrossHair tracing (vf.harness.objmodel.untraced)'],
    'assumptions': CH_ASSUME + SMT_ASSUME,
    'outside': ['quick tier: one representative attribute per attribute signature (35 of 169 sites); thorough: all sites',
                'float values are concrete examples (struct float kernels)', 'lists longer than 4 values (2-byte count form is C06 UVARI)',
                'subsets of more than one assigned attribute per object (attributes are encoded independently: '
                'EFLRItem._make_attrs_bytes concatenates per-attribute components)'],
    'selftests': ['venv:vf.stubs.selftest:selftest_rope_struct', 'real:vf.stubs.selftest:selftest_tokens_vs_strict'],
    'obligations': [
        dict(fn=H + 'c04.ob_item', kind='universal', timeout=(400, 1500), shards=(16, 16), replay=R + 'items:replay_item',
             bounds=('35 attribute signatures x multiplicity {[],1,2,3/nested 2x2} x units x symbolic int (full code range) / symbolic ASCII text len<=2',
                     'all 169 attribute sites x the same'),
             entry=['EFLRSet._make_body_bytes', 'Attribute.get_as_bytes']),
        dict(fn=H + 'c04.reach_item', kind='reach', timeout=(120, 120), validate=R + 'items:replay_item'),
        dict(fn=H + 'c04.ob_set_struct', kind='universal', timeout=(400, 900), shards=(8, 8), replay=R + 'items:replay_item',
             bounds='every item class x set name (none, given at construction, assigned / changed / removed afterwards) x one/two same-named objects (finite, exhaustive)',
             entry=['EFLRSet._make_set_component_bytes', 'EFLRSet._make_template_bytes', 'EFLRItem.make_item_body_bytes']),
        dict(fn=H + 'c04.reach_set_struct', kind='reach', timeout=(120, 120), validate=R + 'items:replay_item'),
        dict(fn=K + 'k4_int_is_integer', kind='smt', engine='smt', timeout=(600, 600), bounds='all 64-bit integers (IEEE-754)',
             entry=['NumericAttribute._int_parser']),
    ],
}

ID = R + 'identity:'
PLAIN_LATE = R + 'plain:replay_plain'
SPECS['C07'] = {
    'functions': ['EFLRItem.__init__', 'EFLRItem._compute_copy_number', 'EFLRSet.register_item', 'EFLRSet.get_all_eflr_items',
                  'EFLRItem.obname', 'write_struct_obname', 'write_struct_objref', 'Attribute.get_as_bytes',
                  'FrameData._make_body_bytes', 'NoFormatFrameData._make_body_bytes', 'EFLRAttribute._convert_value',
                  'LogicalFile.add_origin', 'LogicalFile.next_available_origin_ref', 'LogicalFile.add_zone',
                  'LogicalFile.defining_origin', 'LogicalFile.default_origin_reference', 'EFLRSetsDict.get_or_make_set'],
    'stubs': ['StructShim', 'Rope', 'LenStr', 'ksetattr', 'kint/kfloat'], 'cuts': CUTS, 'assumptions': CH_ASSUME,
    'outside': ['an explicit origin_reference that names no ORIGIN object is accepted by design (pinned by the suite) and not asserted',
                'reference graphs larger than one reference per attribute: resolution is per reference (O7.2 + O7.3)'],
    'selftests': ['venv:vf.stubs.selftest:selftest_rope_struct'],
    'obligations': [
        dict(fn=H + 'c07.ob_copy_step', kind='universal', timeout=(200, 400), replay=ID + 'replay_copy_step',
             bounds='four objects with symbolic names (len<=1): every equality pattern of names', entry=['EFLRItem._compute_copy_number']),
        dict(fn=H + 'c07.reach_copy_step', kind='reach', timeout=(60, 60), validate=ID + 'replay_copy_step'),
        dict(fn=H + 'c07.wit_copy_two_same', kind='witness', timeout=(60, 60), validate=ID + 'replay_copy_step'),
        dict(fn=H + 'c07.ob_identity', kind='universal', timeout=(120, 300), replay=ID + 'replay_identity',
             bounds='origin<2**30, copy<=255, name 1..255 chars, frame number<2**30: header, OBNAME, OBJREF, FDATA head, NOFMT head',
             entry=['EFLRItem.obname', 'FrameData._make_body_bytes']),
        dict(fn=H + 'c07.reach_identity', kind='reach', timeout=(60, 60), validate=ID + 'replay_identity'),
        dict(fn=H + 'c07.ob_ref_admissible', kind='universal', timeout=(300, 300), shards=(8, 8), replay=ID + 'replay_ref_admissible',
             bounds='all reference attributes x all 21 item classes (finite, exhaustive)', entry=['EFLRAttribute._convert_value']),
        dict(fn=H + 'c07.reach_ref_admissible', kind='reach', timeout=(60, 60), validate=ID + 'replay_ref_admissible'),
        dict(fn=H + 'c07.ob_origins', kind='universal', timeout=(300, 600), replay=ID + 'replay_origins',
             bounds='two origins with explicit/default references <=40000; a zone before/between/after with explicit/default reference',
             entry=['LogicalFile.add_origin', 'LogicalFile.next_available_origin_ref']),
        dict(fn=H + 'c07.reach_origins', kind='reach', timeout=(120, 120), validate=ID + 'replay_origins'),
        dict(fn=H + 'c07.ob_copy_origin', kind='universal', timeout=(400, 900), replay=PLAIN_LATE, bounds='three same-type objects: every equality pattern of names x explicit origin references 0..3 (0 = none) x origin reference 0..3 x objects added before / after the origin', entry=['EFLRItem._compute_copy_number', 'LogicalFile.add_origin']),
        dict(fn=H + 'c07.reach_copy_origin', kind='reach', timeout=(120, 120), validate=PLAIN_LATE),
        dict(fn=H + 'c07.ob_across_sets', kind='universal', timeout=(120, 120), replay=ID + 'replay_across_sets',
             bounds='two objects of one type: same/different name x named/unnamed sets, F6 region excluded', entry=['EFLRItem._compute_copy_number']),
        dict(fn=H + 'c07.reach_across_sets', kind='reach', timeout=(60, 60)),
        dict(fn=H + 'c07.kf_across_sets', kind='kf', timeout=(120, 120), replay=ID + 'replay_across_sets',
             bounds='F6 region: same name, at least one set named'),
    ],
}

PLAIN = R + 'plain:replay_plain'


def _pair(mod, name, timeout=(120, 300), bounds='', entry=(), replay=PLAIN, validate=PLAIN, shards=None, kind='universal'):
    a = dict(fn=H + f'{mod}.ob_{name}', kind=kind, timeout=timeout, replay=replay, bounds=bounds, entry=list(entry))
    if shards:
        a['shards'] = shards
    b = dict(fn=H + f'{mod}.reach_{name}', kind='reach', timeout=(120, 120), validate=validate)
    if shards:
        b['shards'] = (1, 1)
    return [a, b]


SPECS['C09'] = {
    'functions': ['DLISFile.generator', 'LogicalFile.add_origin', 'LogicalFile.add_channel', 'LogicalFile.add_frame',
                  'LogicalFile.add_zone', 'LogicalFile.add_no_format', 'LogicalFile.add_no_format_frame_data',
                  'LogicalFile.defining_origin', 'LogicalFile._check_defining_origin_params', 'EFLRSetsDict.get_or_make_set',
                  'EFLRSetsDict.try_add_set', 'EFLRSetsDict.add_set', 'EFLRSetsDict.get_all_items_for_set_type',
                  'FileHeaderItem.__init__', 'FileHeaderItem._make_attrs_bytes', 'FileHeaderSet._make_template_bytes',
                  'EFLRSet._make_body_bytes', 'OriginItem.__init__', 'get_ascii_bytes'],
    'stubs': ['StructShim', 'Rope', 'LenStr', 'FakeMFD (iterable standing for MultiFrameData)', 'nondeterministic RNG / clock in OriginItem'],
    'cuts': CUTS, 'assumptions': CH_ASSUME,
    'outside': ['more than two origins / one logical file in the order obligation (two files: C18)',
                'quick tier: sequence numbers up to 99999 (thorough: 10**10-1)'],
    'selftests': ['venv:vf.stubs.selftest:selftest_rope_struct'],
    'obligations': [
        dict(fn=H + 'c09.ob_order', kind='universal', timeout=(600, 1200), shards=(12, 12), replay=R + 'order:replay_order',
             bounds='24 orders of (origin(s), channel+frame, zones, no-format + 3 payloads) x named sets x 5 origin configurations (one/two origins, named/unnamed origin sets) (finite, exhaustive)',
             entry=['DLISFile.generator']),
        dict(fn=H + 'c09.reach_order', kind='reach', timeout=(120, 120), validate=R + 'order:replay_order'),
    ] + _pair('c09', 'file_header', (600, 1800), 'sequence number 1..99999 (thorough 10**10-1), symbolic ASCII id len<=2, origin<2**30',
              ['FileHeaderSet._make_body_bytes' if False else 'EFLRSet._make_body_bytes', 'FileHeaderItem._make_attrs_bytes'])
      + _pair('c09', 'file_header_reject', (120, 300), 'sequence number over all integers; id length 0..300', ['FileHeaderItem.__init__'], replay=R + 'misc:replay_file_header_reject', validate=R + 'misc:replay_file_header_reject')
      + _pair('c09', 'empty_set', (300, 300), 'every item class x named/unnamed x every even capacity 12..16376: a set without objects yields no segment', ['EFLRSet._make_body_bytes', 'LogicalRecordBytes.make_segments'], shards=(4, 4))
      + _pair('c09', 'registry', (300, 300), 'all 64 registry states over 2 classes x {None,A,B} x request x route (finite, exhaustive)',
              ['EFLRSetsDict.get_or_make_set', 'EFLRSetsDict.add_set', 'EFLRSetsDict.try_add_set'])
      + _pair('c09', 'origin_params', (120, 300), 'file-set number / RNG value < 2**30, supplied or not; clock; FILE-ID unset/equal/different',
              ['OriginItem.__init__', 'LogicalFile._check_defining_origin_params'], replay=R + 'misc:replay_origin_params', validate=R + 'misc:replay_origin_params'),
}

SPECS['C17'] = {
    'functions': ['high_compatibility_mode', 'high_compatibility_mode_decorator', 'validate_string', 'ValidatorEnum.make_converter',
                  'raise_or_warn', 'LogicalFile._check_channels_assigned_to_frames', 'OriginItem.__init__', 'EFLRItem.__init__',
                  'StorageUnitLabel.__init__', 'FileHeaderItem.__init__', 'Attribute.units'],
    'stubs': [], 'cuts': CUTS, 'assumptions': CH_ASSUME + SMT_ASSUME,
    'outside': ['names longer than 3 characters for engine A (K5 covers the pattern for all lengths)',
                'signed-integer channel data and non-uniform index spacing in the mode are decided with C13/C08 (numpy contract stub)'],
    'selftests': [],
    'obligations': _pair('c17', 'context', (60, 120), 'initial flag x nesting 1..3 x exception at any level x 5 forms (with-blocks; decorated outermost; every level decorated = decorated calls decorated; decorated alternating with with-blocks; twice in a row)', ['high_compatibility_mode'])
      + _pair('c17', 'name_rule', (120, 300), 'symbolic str, len<=3 (any code point), mode on/off', ['validate_string'])
      + _pair('c17', 'name_sites', (120, 120), '3 entry points at creation + the same 3 names assigned afterwards and encoded x 10 example names (incl. trailing newline, NUL, tab) x mode (finite)', ['EFLRItem.__init__', 'StorageUnitLabel.__init__', 'FileHeaderItem.__init__'])
      + _pair('c17', 'soft_enum', (60, 120), '4 enumerations x member/value/non-member x mode', ['ValidatorEnum.make_converter'])
      + _pair('c17', 'enum_sites', (120, 120), 'units (attribute value and units), index type, equipment type, location x mode', ['Attribute.units'])
      + _pair('c17', 'incidence', (120, 300), '2 channels x 2 frames: all incidence matrices x mode', ['LogicalFile._check_channels_assigned_to_frames'])
      + _pair('c17', 'file_set_numbers', (120, 120), '1..3 origins x mode', ['OriginItem.__init__'])
      + [dict(fn=H + 'c17.ob_raise_or_warn', kind='universal', timeout=(60, 60), replay=PLAIN, bounds='mode on/off', entry=['raise_or_warn']),
         dict(fn=K + 'k5_hc_regex', kind='smt', engine='smt', timeout=(300, 300), replay=R + 'misc:replay_name_rule',
              bounds='strings of ANY length: HC_STRING_PATTERN (fullmatch) == [A-Z0-9_-]+ as regular languages (z3 4.8, z3 5.1, cvc5)',
              entry=['validate_string'])],
}

D = R + 'data:'
NP_STUBS = ['npstub (provenance arrays: owner, column, row range, dtype incl. byte order, width, view/copy; validated '
            'differentially against real numpy on every run)', 'FakeH5File/FakeH5Module', 'StructShim', 'Rope']
DATA_FUNCS = ['SourceDataWrapper.__init__', 'SourceDataWrapper.determine_dtypes', 'SourceDataWrapper.__getitem__',
              'SourceDataWrapper.load_chunk', 'SourceDataWrapper.make_chunked_generator', 'SourceDataWrapper.make_wrapper',
              'NumpyDataWrapper.__init__', 'NumpyDataWrapper.load_chunk', 'NumpyDataWrapper._check_source_arr',
              'DictDataWrapper.__init__', 'DictDataWrapper._check_source_dict', 'HDF5DataWrapper.__init__',
              'MultiFrameData.__init__', 'MultiFrameData.__iter__', 'MultiFrameData.__next__', 'MultiFrameData.__len__',
              'FrameData.__init__', 'FrameData._make_body_bytes', 'ReprCodeConverter.validate_numpy_dtype',
              'FrameItem.channel_name_mapping', 'FrameItem.known_channel_dtypes_mapping']
NP_OUT = ['numeric bit patterns through numpy cast / astype / tobytes kernels, NaN payloads, strides and memory layout '
          '(C code; the stub carries no element values) - replays exercise them with real numpy on each witness only',
          'real HDF5 I/O (h5py.File is a dict-like stub)']
NP_SELF = ['venv:vf.stubs.selftest:selftest_rope_struct', 'venv:vf.stubs.selftest:selftest_npstub']

_window = _pair('c11', 'window', (300, 600), 'every source kind (dict, structured copy path, structured fast path, HDF5, structured with permuted fields, structured with permuted fields of one format = equal row layout); total<=10**6 rows (symbolic; replays materialise up to 20000); '
                'any window 0<=from<to<=total or open; any chunk 0<=start<=stop<=n_rows or open', ['SourceDataWrapper.load_chunk', 'NumpyDataWrapper.load_chunk'],
                replay=D + 'replay_window', validate=D + 'replay_window', shards=(6, 6)) + [
    dict(fn=H + 'c11.wit_window_fast_path_offset', kind='witness', timeout=(60, 60), validate=D + 'replay_window')]
_iteration = _pair('c11', 'iteration', (300, 900), 'every source kind; 1..6 (thorough 40) rows from any offset; input chunk 1..n+2 or None',
                   ['MultiFrameData.__next__', 'SourceDataWrapper.make_chunked_generator'], replay=D + 'replay_iteration',
                   validate=D + 'replay_iteration', shards=(5, 5))
_tiling = _pair('c11', 'tiling', (120, 300), 'n<=40 (thorough 10**6), chunk<=n+20 or None, n//chunk<=6', ['SourceDataWrapper.make_chunked_generator'],
                replay=D + 'replay_tiling', validate=D + 'replay_tiling')
_fdcast = _pair('c11', 'fdata_cast', (300, 600), 'every source kind x 8 source dtypes (both byte orders) x 8 cast dtypes given with an explicit byte order (< / >) x scalar/width<=4096: the slot is the cast value, most significant byte first',
                ['FrameData._make_body_bytes', 'SourceDataWrapper.determine_dtypes', 'SourceDataWrapper.load_chunk'], replay=D + 'replay_fdata_cast', validate=D + 'replay_fdata_cast', shards=(5, 5))
_fdata = _pair('c11', 'fdata_body', (300, 600), 'every source kind x 8 dtypes x both byte orders x scalar/width<=4096 x frame number<2**30',
               ['FrameData._make_body_bytes'], replay=D + 'replay_fdata_body', validate=D + 'replay_fdata_body', shards=(5, 5)) + [
    dict(fn=H + 'c11.wit_fdata_bigendian_2d', kind='witness', timeout=(60, 60), validate=D + 'replay_fdata_body'),
    dict(fn=H + 'c11.ob_fdata_number_edges', kind='universal', timeout=(300, 600), replay=D + 'replay_fdata_body',
         bounds='frame numbers +-1 around 1, 127/128, 255/256, 16383/16384, 65535/65536, 2**30-1 x every source kind: enumeration', entry=['FrameData._make_body_bytes'])]
_descr = _pair('c11', 'descriptors', (300, 600), 'every source kind x 8 dtypes x cast/no cast x width 0..2**20 x user dimension / element limit given or not, 1..2**20',
               ['ChannelItem.set_dimension_and_repr_code_from_data', 'ChannelItem._set_dimension_from_data', 'ChannelItem._set_repr_code_from_data',
                'ChannelItem._compare_element_limit_vs_dimension', 'ChannelItem._run_checks_and_set_defaults', 'ChannelItem._set_cast_dtype'],
               replay=D + 'replay_descriptors', validate=D + 'replay_descriptors', shards=(5, 5))
_reject = _pair('c11', 'window_reject', (120, 300), 'every source kind; from 0..1005, to 0..total', ['SourceDataWrapper.__init__'],
                replay=D + 'replay_window_reject', validate=D + 'replay_window_reject')
_rowcount = _pair('c11', 'rowcount', (120, 300), 'dict and HDF5 sources; row counts 1..50, different; either dataset first; F15 region excluded', ['SourceDataWrapper.__init__'],
                  replay=D + 'replay_rowcount', validate=D + 'replay_rowcount')
_rowcount = _rowcount + [dict(fn=H + 'c11.kf_rowcount', kind='kf', timeout=(120, 120), replay=D + 'replay_rowcount', bounds='F15 region: other dataset longer than the first, or of one row')]
_badsrc = _pair('c11', 'bad_source', (60, 120), 'unsupported dtype (int64/float16), 3-D dataset, missing dataset', ['SourceDataWrapper.determine_dtypes'],
                replay=D + 'replay_bad_source', validate=D + 'replay_bad_source')
_datadict = _pair('c11', 'data_dict', (120, 300), 'inline + passed data, extra and overlapping keys, 1..4 rows', ['LogicalFile._make_multi_frame_data'],
                  replay=D + 'replay_data_dict', validate=D + 'replay_data_dict')
_taint = _pair('c11', 'taint', (120, 300), 'every source kind x 1..3 rows x chunk 1..4 x cast x byte order', ['FrameData._make_body_bytes', 'SourceDataWrapper.load_chunk'],
               replay=D + 'replay_taint', validate=D + 'replay_taint')
_twofiles = _pair('c11', 'two_files_data', (300, 600), 'two logical files, inline data under equal / different dataset names, 1..4 rows each, a shared dict passed or not',
                  ['LogicalFile._make_multi_frame_data'], replay=D + 'replay_two_files_data', validate=D + 'replay_two_files_data')
_gen2 = _pair('c11', 'generate_two_files', (300, 600), 'DLISFile.generate_logical_records over two logical files: 1..3 rows each, chunk 1..4, equal / different dataset names',
              ['DLISFile.generate_logical_records', 'DLISFile.generator', 'LogicalFile._make_multi_frame_data'], replay=D + 'replay_two_files_data', validate=D + 'replay_two_files_data')
_declcnt = _pair('c11', 'declared_count', (300, 600), 'one or two logical files, 1..3 rows, 0..2 extra objects in a set, 0..2 no-format records: declared length of the record sequence >= records yielded - 1 (the largest value the progress bar is advanced to)',
                 ['DLISFile.generate_logical_records', 'DLISFile.generator', 'SizedGenerator.__len__', 'SizedGenerator.__iter__'], replay=D + 'replay_declared_count', validate=D + 'replay_declared_count')
_twofr = _pair('c11', 'two_frames', (300, 600), 'two frames, 1..4 rows each, chunk 1..5', ['MultiFrameData.__next__'],
               replay=D + 'replay_two_frames', validate=D + 'replay_two_frames')

SPECS['C11'] = {'functions': DATA_FUNCS, 'stubs': NP_STUBS, 'cuts': CUTS, 'assumptions': CH_ASSUME, 'outside': NP_OUT,
                'selftests': NP_SELF, 'obligations': _window + _reject + _iteration + _tiling}
SPECS['C03'] = {'functions': DATA_FUNCS, 'stubs': NP_STUBS, 'cuts': CUTS, 'assumptions': CH_ASSUME,
                'outside': NP_OUT + ['the claim is structural: one record per row, numbering, referenced frame, slot order, slot byte '
                                     'length and byte order under the stub contract; value bit patterns only in replays'],
                'selftests': NP_SELF, 'obligations': _iteration + _tiling + _fdata + _fdcast + _window}
SPECS['C08'] = {'functions': DATA_FUNCS + ['ChannelItem.set_dimension_and_repr_code_from_data', 'ChannelItem._set_dimension_from_data',
                                           'ChannelItem._set_repr_code_from_data', 'ChannelItem._compare_element_limit_vs_dimension',
                                           'ChannelItem._run_checks_and_set_defaults', 'ChannelItem._set_cast_dtype', 'ReprCodeAttribute.set_from_dtype'],
                'stubs': NP_STUBS + ['kint/kfloat'], 'cuts': CUTS, 'assumptions': CH_ASSUME + SMT_ASSUME,
                'outside': NP_OUT + ['what numpy reports as shape/dtype for exotic arrays'],
                'selftests': NP_SELF + ['venv:vf.stubs.selftest:selftest_format_table'], 'obligations': _descr + _fdata + _fdcast}
SPECS['C19'] = {'functions': DATA_FUNCS + ['LogicalFile._make_multi_frame_data'], 'stubs': NP_STUBS, 'cuts': CUTS, 'assumptions': CH_ASSUME,
                'outside': NP_OUT + ['numpy / h5py internals and the file on disk: the claim is the Python-level data flow under '
                                     'numpy\'s documented view/copy contract (in-place operations the stub models: slice/field '
                                     'assignment, byteswap(inplace), sort, fill, |=, +=, *=); replays compare real arrays and the '
                                     'HDF5 file bit-for-bit before/after on each witness'],
                'selftests': NP_SELF, 'obligations': _taint + _datadict + _twofiles}
SPECS['C03']['obligations'] = SPECS['C03']['obligations'] + _taint     # a second write of the same arrays is only faithful if the first left them alone (round 6)


def _find(pid, name):
    return [o for o in SPECS[pid]['obligations'] if o['fn'].endswith('.' + name)]


SPECS['C12'] = {
    'functions': sorted(set(DATA_FUNCS[:6] + ['write_struct', 'write_struct_uvari', 'write_struct_ident', 'write_struct_ascii',
                                              'LogicalFile.check_objects', 'LogicalFile._check_completeness', 'FileHeaderItem.__init__',
                                              'StorageUnitLabel.represent_as_bytes', 'get_ascii_bytes', 'Attribute._write_for_body',
                                              'Attribute._write_values', 'EFLRSet._make_set_component_bytes'])),
    'stubs': NP_STUBS + ['LenStr'], 'cuts': CUTS, 'assumptions': CH_ASSUME,
    'outside': NP_OUT + ['"accepted => faithful" is the conjunction of the other properties\' checks; this check holds the rejection side',
                         'non-ASCII text: call-site contract on .encode("ascii") (strict), see C06',
                         'windows with to_idx beyond the data (not in the property\'s list of invalid inputs)'],
    'selftests': NP_SELF,
    'obligations': _rowcount + _badsrc + _reject
    + _pair('c12', 'completeness', (120, 120), 'origin / channel / frame present or not (all combinations)', ['LogicalFile._check_completeness'])
    + _pair('c12', 'long_names', (120, 300), 'object name, units, IDENT value, set name of 0..70000 characters', ['write_struct_ident'])
    + _find('C06', 'ob_fixed_int') + _find('C06', 'reach_fixed_int') + _find('C06', 'ob_uvari') + _find('C06', 'ob_uvari_edges')
    + _find('C06', 'ob_fixed_int_edges') + _find('C06', 'ob_obname_edges') + _find('C06', 'ob_ident_len')
    + _find('C06', 'ob_ascii_len') + _find('C06', 'ob_obname') + _find('C01', 'ob_sul_numbers') + _find('C09', 'ob_file_header_reject')
    + _find('C04', 'ob_item'),
}

SPECS['C13'] = {
    'functions': ['FrameItem._compute_spacing_and_direction', 'FrameItem._setup_frame_params_from_data', 'FrameItem.setup_from_data',
                  'NumericAttribute._convert_number', 'NumericAttribute._float_parser'],
    'stubs': ['npvalues (value-level integer arrays: same-dtype wrapping diff, unique, median as exact fraction; the near-uniform '
              'float tolerance test returns an arbitrary boolean)', 'FakeData (index array provider)', 'kint/kfloat'],
    'cuts': CUTS, 'assumptions': CH_ASSUME,
    'outside': ['float indices with non-integer values or magnitudes above 2**50 (rounding of the differences inside numpy); the band '
                '|1 - d/median| in [0.031, 0.032] of the near-uniform tolerance, where float rounding may decide either way; infinities',
                'index arrays longer than 3 (spacing) / 4 (assignment) rows'],
    'selftests': ['venv:vf.stubs.selftest:selftest_npvalues'],
    'obligations': _pair('c13', 'spacing', (300, 600), '6 integer dtypes x 1..3 rows x all values of the dtype x both tolerance outcomes',
                         ['FrameItem._compute_spacing_and_direction'], replay=D + 'replay_spacing', validate=D + 'replay_spacing', shards=(6, 6))
    + _pair('c13', 'spacing_tol', (800, 2400), 'the near-uniform tolerance (1 - d/median)**2 < 0.001 in exact rational arithmetic (squares kept lazy: |q| against an enclosure of sqrt(0.001)): 6 integer dtypes x 3..4 rows x all values of the dtype; nothing asserted for |1 - d/median| in [0.031, 0.032]',
            ['FrameItem._compute_spacing_and_direction'], replay=D + 'replay_spacing', shards=(6, 6))
    + [dict(fn=H + 'c13.wit_spacing_unsigned_decreasing', kind='witness', timeout=(60, 60), validate=D + 'replay_spacing')]
    + _pair('c13', 'params', (300, 600), 'index type given or not x user-supplied min/max/spacing/direction or not x uniform or not x 1..4 rows x mode',
            ['FrameItem._setup_frame_params_from_data'], replay=D + 'replay_params', validate=D + 'replay_params')
    + _pair('c13', 'second_setup', (120, 120), 'no index type, same number of rows (F9 region excluded)', ['FrameItem._setup_frame_params_from_data'],
            replay=D + 'replay_second_setup', validate=D + 'replay_second_setup')
    + [dict(fn=H + 'c13.kf_second_setup', kind='kf', timeout=(120, 120), replay=D + 'replay_second_setup', bounds='F9 region: index type given or different row counts')],
}

ST = R + 'state:'
_rename = _pair('c14', 'rename', (120, 300), 'new origin<2**30, rename or not, name lengths 1..255, as OBNAME and OBJREF; memo guards on',
                ['EFLRItem.obname', 'EFLRItem.__setattr__', 'write_struct', 'write_struct_obname', 'write_struct_objref'],
                replay=ST + 'replay_rename', validate=ST + 'replay_rename')
_cachekey = _pair('c14', 'cache_key', (300, 600), 'every memoised function found by introspection x 7 codes x 13x13 scalar values (1, 1.0, True, ...) and, for single-argument memos, 13x13 tuples ((10, 20) / (10.0, 20.0), (1,) / (True,), (0.0,) / (-0.0,) ...): keys equal => uncached results equal',
                  ['write_struct', 'ushort'], replay=ST + 'replay_cache_key', validate=ST + 'replay_cache_key', shards=(4, 4))
_enthist = _pair('c14', 'entry_history', (120, 300), 'write_struct with the real lru caches: 11 codes (incl. DTIME) x every ordered pair of equal (==) values out of 26 (0.0/-0.0, 1/1.0/True, naive date-times differing in fold under a TZ rule with a clock set-back, ...): b after a == b as in a fresh process (finite, exhaustive)',
                 ['write_struct'], replay=PLAIN)
_idem = _pair('c14', 'idempotent', (400, 1500), 'every attribute signature (thorough: every site) x multiplicity x small values: encode twice', ['EFLRItem.make_item_body_bytes',
              'ParameterItem._run_checks_and_set_defaults', 'ComputationItem._run_checks_and_set_defaults', 'ChannelItem._run_checks_and_set_defaults',
              'DimensionedItem._check_or_set_value_dimensionality'], shards=(16, 16)) + [
    dict(fn=H + 'c14.wit_idempotent_param_values', kind='witness', timeout=(60, 60), validate=PLAIN)]
_reassign = _pair('c14', 'reassign', (400, 1500), 'every attribute signature (thorough: every site): value of one kind / multiplicity (1..2) assigned and encoded, then a value of the other kind (text / reference, date / number, int / float) or multiplicity: encoding equals that of a fresh object',
                  ['Attribute.value', 'Attribute.representation_code', 'Attribute.get_as_bytes', 'EFLRItem.make_item_body_bytes'], replay=R + 'items:replay_reassign', shards=(8, 16))
_rejected = _pair('c14', 'rejected', (300, 600), 'every item class x 4 rejection kinds (unknown keyword, bad origin type, bad attribute part, bad name type) x later same/other name',
                  ['EFLRItem.__init__', 'EFLRSet.register_item', 'EFLRItem._compute_copy_number'], shards=(8, 8))
_rejapi = _pair('c14', 'rejected_api', (120, 300), 'add_zone(bad domain), add_parameter(bad reference), add_channel(bad cast dtype: str / 0 / empty / False), add_channel(bad data), add_channel(valid data + bad cast dtype / property / axis / long name)',
                ['LogicalFile.add_zone', 'LogicalFile.add_parameter', 'LogicalFile.add_channel'], replay=ST + 'replay_rejected_api', validate=ST + 'replay_rejected_api')
_isol = _pair('c14', 'isolation', (400, 900), 'two logical files: zone set names from {None,A,B} (different), 6 interleavings of origin/zone additions, explicit/default second origin reference',
              ['LogicalFile.add_origin', 'LogicalFile.add_zone', 'DLISFile.generator', 'EFLRSetsDict.get_or_make_set'], replay=ST + 'replay_isolation', validate=ST + 'replay_isolation') + [
    dict(fn=H + 'c14.ob_isolation_shared_origin', kind='universal', timeout=(400, 900), replay=ST + 'replay_isolation', shards=(6, 6),
         bounds='two logical files whose origins go to the SAME origin set name (default or named; the F12 sub-region where the library is fail-closed): zone set names from {None,A,B}^2, channel / frame sets per file or shared, header identifiers different / equal, 6 interleavings, explicit / default second reference: refused (at the latest when the file header is encoded), never one file\'s objects in the other (finite, exhaustive)',
         entry=['LogicalFile.add_origin', 'LogicalFile.check_objects', 'DLISFile.generator']),
    dict(fn=H + 'c14.kf_isolation_shared', kind='kf', timeout=(300, 300), replay=ST + 'replay_isolation', bounds='F12 region: the same set class and name used in both logical files')]

SPECS['C14'] = {
    'functions': ['write_struct', 'ushort', 'EFLRItem.obname', 'EFLRItem.__setattr__', 'LRMeta.lr_type_struct', 'high_compatibility_mode',
                  'LogicalFile._make_multi_frame_data', 'OriginItem.__init__', 'EFLRItem.make_item_body_bytes', 'FrameItem._setup_frame_params_from_data',
                  'DimensionedItem._check_or_set_value_dimensionality'],
    'stubs': ['StructShim', 'Rope', 'LenStr', 'memoisation guards (every lru-wrapped function of the package is wrapped to record mutable arguments)',
              'npstub', 'nondeterministic RNG / clock'],
    'cuts': CUTS, 'assumptions': CH_ASSUME,
    'outside': ['an actual second OS process: the claim is per state carrier (memos, cached properties, class-level bytes, mode flag, merged data, '
                'clock/RNG use, derived attributes), enumerated by introspection / listed in DESIGN appendix B',
                'F9 region (derived frame/channel attributes persist across writes): known finding'],
    'selftests': NP_SELF,
    'obligations': _rename + _cachekey + _enthist + _reassign + _idem + _datadict + _find('C17', 'ob_context') + _find('C02', 'ob_lr_type')
    + _find('C09', 'ob_origin_params') + _find('C13', 'ob_second_setup') + _find('C13', 'kf_second_setup'),
}
SPECS['C20'] = {
    'functions': ['EFLRItem.__init__', 'EFLRSet.register_item', 'EFLRItem._compute_copy_number', 'EFLRItem.set_attributes', 'ChannelItem.__init__',
                  'LogicalFile.add_channel', 'LogicalFile._get_unique_dataset_name', 'LogicalFile.add_zone', 'LogicalFile.add_parameter'],
    'stubs': ['StructShim'], 'cuts': CUTS, 'assumptions': CH_ASSUME,
    'outside': ['a write that fails after the data-dependent set-up ran, then succeeds: same carrier as F9 (known finding)',
                'an empty set object created for a rejected first object stays registered; it yields no record (C09 O9.4)'],
    'selftests': [],
    'obligations': _rejected + _rejapi + _idem + _find('C13', 'kf_second_setup'),
}
SPECS['C18'] = {
    'functions': ['LogicalFile.add_origin', 'LogicalFile.add_zone', 'DLISFile.generator', 'DLISFile.add_logical_file', 'EFLRSetsDict.get_or_make_set',
                  'EFLRSetsDict.try_add_set', 'MultiFrameData.__next__', 'MultiFrameData.__iter__'],
    'stubs': NP_STUBS, 'cuts': CUTS, 'assumptions': CH_ASSUME,
    'outside': ['more than two frames / two logical files', 'F12 region: the same (set class, set name) in two logical files is one shared set object: known finding'],
    'selftests': NP_SELF,
    'obligations': _isol + _twofr + _twofiles + _gen2,
}

SPECS['C05'] = {
    'functions': ITEM_FUNCS + ['EFLRItem.set_attributes', 'AttrSetup.items', 'ChannelItem._run_checks_and_set_defaults',
                               'OriginItem._run_checks_and_set_defaults', 'ParameterItem._run_checks_and_set_defaults',
                               'ComputationItem._run_checks_and_set_defaults', 'write_struct_dtime', 'convert_maybe_numeric'],
    'stubs': ['StructShim', 'Rope', 'LenStr', 'FakeDT', 'kint/kfloat (lemma K4)', 'ksetattr'], 'cuts': SPECS['C04']['cuts'],
    'assumptions': CH_ASSUME + SMT_ASSUME,
    'outside': ['FSINGL/FDOUBL bit patterns (struct.pack float kernels): float values are concrete examples',
                'datetime.strptime parsing of date strings and the local-time interpretation of naive datetimes (C library / environment)',
                'fully symbolic text longer than 2-3 characters (longer text: abstract content with symbolic length, C06)',
                'quick tier: one representative attribute per signature; thorough: all 169 sites'],
    'selftests': ['venv:vf.stubs.selftest:selftest_rope_struct', 'real:vf.stubs.selftest:selftest_tokens_vs_strict'],
    'obligations': _find('C04', 'ob_item') + _find('C04', 'reach_item')
    + _pair('c05', 'routes', (200, 400), 'keyword / dict / AttrSetup / later assignment + unknown attribute + unknown part; symbolic ASCII text len<=3; units on/off',
            ['EFLRItem.set_attributes', 'Attribute.value', 'Attribute.units'])
    + _pair('c05', 'defaults', (120, 300), 'channel / origin / parameter / computation from symbolic assigned-or-not state, dimension and limit 1..2**20',
            ['ChannelItem._run_checks_and_set_defaults', 'OriginItem._run_checks_and_set_defaults', 'ParameterItem._run_checks_and_set_defaults'])
    + _pair('c05', 'api_wiring', (400, 900), 'every keyword parameter of every LogicalFile.add_* method (150 sites, found by introspection), one at a time: the value lands in the attribute of that name (3 documented renames) and nowhere else',
            ['LogicalFile.add_axis', 'LogicalFile.add_calibration', 'LogicalFile.add_calibration_coefficient', 'LogicalFile.add_calibration_measurement', 'LogicalFile.add_channel', 'LogicalFile.add_comment',
             'LogicalFile.add_computation', 'LogicalFile.add_equipment', 'LogicalFile.add_frame', 'LogicalFile.add_group', 'LogicalFile.add_long_name', 'LogicalFile.add_message', 'LogicalFile.add_no_format',
             'LogicalFile.add_parameter', 'LogicalFile.add_path', 'LogicalFile.add_process', 'LogicalFile.add_splice', 'LogicalFile.add_tool', 'LogicalFile.add_well_reference_point', 'LogicalFile.add_zone'], shards=(16, 16))
    + _find('C06', 'ob_dtime') + _find('C06', 'reach_dtime') + _find('C06', 'k3_dtime_ms') + _find('C04', 'k4_int_is_integer')
    + _find('C06', 'ob_text_content') + _find('C06', 'ob_ascii_len') + _find('C07', 'ob_identity'),
}

# C10 also owns the input-chunk independence obligations (defined with the data-path specs above)
SPECS['C09']['obligations'] = SPECS['C09']['obligations'] + _pair('c09', 'set_names_once', (200, 400), '4 add_* methods x three objects with set names from {None, empty, A, B} (finite): sets of one type are told apart by their ENCODED set component', ['EFLRSetsDict.get_or_make_set', 'EFLRSet._make_set_component_bytes', 'DLISFile.generator'], shards=(16, 16))
SPECS['C10']['obligations'] = SPECS['C10']['obligations'] + _tiling + _iteration
_tnp = _pair('c11', 'tiling_nonpos', (120, 300), 'n<=40 rows, chunk size in [-60, 0], real DictDataWrapper over the numpy stub: refused, or every row once and in order', ['SourceDataWrapper.make_chunked_generator'],
             replay=D + 'replay_tiling_nonpos', validate=D + 'replay_tiling_nonpos')
for _c in ('C03', 'C10', 'C12'):
    SPECS[_c]['obligations'] = SPECS[_c]['obligations'] + _tnp
SPECS['C10']['stubs'] = SPECS['C10']['stubs'] + NP_STUBS
SPECS['C10']['selftests'] = SPECS['C10']['selftests'] + ['venv:vf.stubs.selftest:selftest_npstub']
SPECS['C07']['obligations'] = SPECS['C07']['obligations'] + _gen2

_wide = _pair('c13', 'wide_first_channel', (120, 300), 'first channel 2-D: rows 1..10**6 x width 2..4096, index type or not, user index_max or not',
              ['FrameItem._setup_frame_params_from_data'])
SPECS['C13']['obligations'] = SPECS['C13']['obligations'] + _wide
_edges_txt = _pair('c01', 'text_field_edges', (300, 600), 'storage-set identifier (60) and header id (65): 55..67 letters + 0..3 trailing blanks + 0..1 leading blank: enumeration',
                   ['get_ascii_bytes', 'StorageUnitLabel.represent_as_bytes', 'FileHeaderItem._make_attrs_bytes', 'FileHeaderItem.__init__'])
SPECS['C01']['obligations'] = SPECS['C01']['obligations'] + _edges_txt
SPECS['C12']['obligations'] = SPECS['C12']['obligations'] + _edges_txt
SPECS['C09']['obligations'] = SPECS['C09']['obligations'] + _edges_txt
_dsn = _pair('c11', 'dataset_names', (400, 900), 'three channels: names from {A,B} x explicit dataset names from {none,A,B,A__1} (finite, exhaustive)',
             ['LogicalFile._get_unique_dataset_name', 'LogicalFile.add_channel'], shards=(8, 8))
_dsn = _dsn + _pair('c11', 'dataset_names_sets', (300, 600), 'two channels: names {A,B} x explicit dataset names {none,A,B,A__1} x channel-set names {none,S} (finite, exhaustive)',
                    ['LogicalFile._get_unique_dataset_name', 'LogicalFile.add_channel'], replay=D + 'replay_dataset_names_sets')
SPECS['C11']['obligations'] = SPECS['C11']['obligations'] + _dsn
SPECS['C18']['obligations'] = SPECS['C18']['obligations'] + _find('C11', 'ob_dataset_names_sets') + _find('C11', 'reach_dataset_names_sets')
SPECS['C20']['obligations'] = SPECS['C20']['obligations'] + _dsn

_rejorder = _pair('c14', 'rejected_order', (120, 120), 'a rejected add_zone between valid calls, named / unnamed set, set already in use', ['LogicalFile.add_zone', 'DLISFile.generator']) + [
    dict(fn=H + 'c14.kf_rejected_order', kind='kf', timeout=(120, 120), replay=PLAIN, bounds='F21 region: the rejected call is the first use of its set')]
SPECS['C20']['obligations'] = SPECS['C20']['obligations'] + _rejorder

SPECS['C06']['obligations'] = SPECS['C06']['obligations'] + _pair('c06', 'text_codepoints', (120, 300), 'IDENT and ASCII; 1- and 2-character texts with a code point at 0, 31, 126..129, 255/256, 2047/2048, 65535/65536, 0x10FFFF: enumeration',
    ['write_struct_ident', 'write_struct_ascii'], replay=ENC, validate=ENC) + _pair('c06', 'dtime_year', (60, 120), 'year over all integers', ['write_struct_dtime'], replay=ENC, validate=ENC)
SPECS['C12']['obligations'] = SPECS['C12']['obligations'] + _find('C06', 'ob_text_codepoints') + _find('C06', 'ob_dtime_year')
_tle = _pair('c06', 'text_len_edges', (200, 400), 'real str texts of 1, 8, 16, 32, 64, 100, 128, 200, 255, 256, 512, 1000, 1024, 4096, 16384, 65536 (+-1) characters x IDENT by dispatch / ASCII by dispatch / write_struct_ident / object name in OBNAME / in OBJREF: enumeration',
             ['write_struct', 'write_struct_ident', 'write_struct_ascii', 'write_struct_obname', 'write_struct_objref'], replay=ENC, validate=ENC, shards=(5, 5))
for _c in ('C04', 'C05', 'C06', 'C07', 'C12'):
    SPECS[_c]['obligations'] = SPECS[_c]['obligations'] + _tle
SPECS['C05']['obligations'] = SPECS['C05']['obligations'] + _find('C06', 'ob_ident_len') + _find('C06', 'reach_ident_len') + _find('C06', 'wit_ident_long')
SPECS['C17']['obligations'] = SPECS['C17']['obligations'] + _pair('c11', 'check_data', (120, 300), '8 dtypes x scalar / width 1..3 x mode', ['LogicalFile._check_data'])
SPECS['C17']['stubs'] = SPECS['C17']['stubs'] + NP_STUBS

_wwiring = _pair('c10', 'write_wiring', (120, 300), 'label maximum vs constructor argument (own label or not, label changed after construction), chunk sizes, window: symbolic',
                 ['DLISFile.__init__', 'DLISFile.write'], replay=IO + 'replay_write_wiring', validate=IO + 'replay_write_wiring')
for _p in ('C01', 'C10', 'C15'):
    SPECS[_p]['obligations'] = SPECS[_p]['obligations'] + _wwiring

# round 3: the declared length of the record sequence (C15: writability, C02: every record handed over is written)
for _p in ('C15', 'C02'):
    SPECS[_p]['obligations'] = SPECS[_p]['obligations'] + _declcnt + _find('C10', 'ob_sized_wiring') + _find('C10', 'reach_sized_wiring')
SPECS['C15']['stubs'] = SPECS['C15']['stubs'] + NP_STUBS
SPECS['C06']['obligations'] = SPECS['C06']['obligations'] + _enthist
# an OBNAME / OBJREF value is the *current* identity of the item referred to (C06: the encoding of the value; C07: the
# reference resolves to the object the user passed, also after it was renamed / moved to another origin)
for _p in ('C06', 'C07'):
    SPECS[_p]['obligations'] = SPECS[_p]['obligations'] + _rename
# C17: "uniformly spaced indexed frames" in the mode - the frame set-up obligations of C13 decide it (value-level numpy stub)
SPECS['C17']['obligations'] = SPECS['C17']['obligations'] + _find('C13', 'ob_params') + _find('C13', 'reach_params')
SPECS['C17']['outside'] = [o for o in SPECS['C17']['outside'] if not o.startswith('signed-integer channel data')]

# a frame whose channel list repeats a name cannot be laid out (columns are keyed by channel name): refused, or one slot per channel
_dupn = _pair('c11', 'dup_names', (120, 300), 'frame [I, X, X(copy 1)] / [I, X, X (same object)] / control [I, X, Y]; 1..3 rows; chunk 1..3; inline data through LogicalFile._make_multi_frame_data',
              ['MultiFrameData.__init__', 'LogicalFile._make_multi_frame_data', 'FrameItem.channel_name_mapping', 'LogicalFile.add_frame'], replay=D + 'replay_dup_names', validate=D + 'replay_dup_names')
for _p in ('C08', 'C12', 'C11'):
    SPECS[_p]['obligations'] = SPECS[_p]['obligations'] + _dupn

# what the user sets later is what a reader gets (C05), also after an earlier value of another kind was written
SPECS['C05']['obligations'] = SPECS['C05']['obligations'] + _reassign

# the channel -> data set mapping is read afresh for every write (C11: sources / mapping; C14: no per-object state leaks)
_remap = _pair('c11', 'remap', (200, 400), 'records generated once, then channel A re-pointed (dataset_name) or replaced by a same-named channel: dict / structured source, 1..3 rows, chunk 1..3',
               ['FrameItem.channel_name_mapping', 'LogicalFile._make_multi_frame_data', 'ChannelItem.dataset_name'], replay=D + 'replay_remap', validate=D + 'replay_remap')
for _p in ('C11', 'C14'):
    SPECS[_p]['obligations'] = SPECS[_p]['obligations'] + _remap

# a second write with data of another dtype: declared code == dtype of the slots (C03 round trip, C08 descriptors)
_secdt = _pair('c11', 'second_dtype', (300, 600), 'one channel, records generated twice: 8 x 8 dtypes, 1..2 rows, with / without an explicit cast',
               ['LogicalFile._make_multi_frame_data', 'FrameItem.setup_from_data', 'ChannelItem._set_repr_code_from_data', 'FrameItem.known_channel_dtypes_mapping'],
               replay=D + 'replay_second_dtype', validate=D + 'replay_second_dtype', shards=(8, 8))
for _p in ('C03', 'C08'):
    SPECS[_p]['obligations'] = SPECS[_p]['obligations'] + _secdt

# index metadata is about the rows WRITTEN: with a cast dtype on the index channel those are the cast values
_castidx = _pair('c13', 'cast_index', (120, 300), 'int32 index data (all values) x 1..2 rows (thorough: 3) x cast to int8 / int16 / uint8 / uint16 (numpy astype: narrowing wraps)',
                 ['FrameItem._setup_frame_params_from_data'], replay=D + 'replay_cast_index', validate=D + 'replay_cast_index', shards=(8, 12))
SPECS['C13']['obligations'] = SPECS['C13']['obligations'] + _castidx
_fltidx = _pair('c13', 'float_index', (400, 900), 'float64 index of 1..4 rows, each an integer-valued number of magnitude <= 2**50 (differences exact in binary64) or NaN (numpy NaN semantics), high-compatibility mode on / off; tolerance in exact rationals: a SPACING is declared only for uniformly spaced rows (never NaN, never for an index with a missing sample) and the mode refuses the others',
                ['FrameItem._compute_spacing_and_direction', 'FrameItem._setup_frame_params_from_data'], replay=D + 'replay_float_index', validate=D + 'replay_float_index', shards=(4, 4))
for _p in ('C13', 'C17'):
    SPECS[_p]['obligations'] = SPECS[_p]['obligations'] + _fltidx

# ---------------------------------------------------------------------------------------------------------------
# round 4 of seeded changes (vf/harness/r4.py, vf/replay/r4.py)
R4 = R + 'r4:'
_sulre = _pair('r4', 'sul_rerender', (400, 900), 'label rendered, any of sequence number (1..9999) / maximum record length (20..16384) / set identifier re-assigned, rendered again: equals a fresh label',
               ['StorageUnitLabel.represent_as_bytes', 'StorageUnitLabel.__init__'], replay=R4 + 'replay_sul_rerender', validate=R4 + 'replay_sul_rerender')
_fhlate = _pair('r4', 'fh_late', (200, 900), 'file header created with provisional sequence number / identifier, completed through its attributes, optionally after a first encoding; sequence numbers up to 99999 (thorough: 10**10-1)',
                ['FileHeaderItem.__init__', 'FileHeaderItem._make_attrs_bytes'], replay=R4 + 'replay_fh_late', validate=R4 + 'replay_fh_late')
_alias = _pair('r4', 'alias', (400, 1200), 'every multi-valued attribute signature (thorough: site): the list handed over is appended to / cleared / changed by the caller afterwards',
               ['Attribute.value', 'Attribute.convert_value', 'EFLRAttribute._convert_value'], replay=R4 + 'replay_alias', shards=(8, 16))
_longl = _pair('r4', 'long_list', (200, 400), 'AXIS coordinates: lists of 1..12 integers, one element (symbolic position) any integer: in range -> exact, out of the SLONG range -> refused',
               ['Attribute._write_values', 'write_struct', 'Attribute.get_as_bytes'], replay=R4 + 'replay_long_list', validate=R4 + 'replay_long_list', shards=(12, 12))
_looka = _pair('r4', 'lookalike', (120, 300), '26 strings that look numeric (nan, inf, 1e5, 5., .5, 1_0, blanks ...) through convert_maybe_numeric and AXIS coordinates (finite, exhaustive)',
               ['convert_maybe_numeric', 'convert_numeric'], replay=R4 + 'replay_lookalike', validate=R4 + 'replay_lookalike')
_shared = _pair('r4', 'shared_dataset', (400, 900), 'two channels of one frame on ONE data set: 8 source dtypes x (no cast + 8 casts)^2 x dict / structured source x 2 rows (thorough: 1..2) x chunk 1..2 (finite, exhaustive)',
                ['SourceDataWrapper.determine_dtypes', 'SourceDataWrapper.load_chunk', 'LogicalFile._make_multi_frame_data', 'ChannelItem.dataset_name'],
                replay=R4 + 'replay_shared_dataset', validate=R4 + 'replay_shared_dataset', shards=(18, 18))
_compl = _pair('r4', 'completeness', (120, 300), 'channel present or not x frame present or not x a rejected add_channel / add_frame call: check_objects refuses an incomplete logical file',
               ['LogicalFile.check_objects', 'LogicalFile._check_completeness', 'LogicalFile.add_frame', 'LogicalFile.add_channel'])
_foreign = _pair('r4', 'foreign_channel', (120, 300), 'two logical files (own set names): a frame of the second lists a channel object of the first, in place of / in addition to its own',
                 ['LogicalFile._check_channels_assigned_to_frames', 'LogicalFile.check_objects'])
_rejorig = _pair('r4', 'rejected_origin', (200, 400), 'first add_origin rejected for one of 9 reasons (creation time, file set number 2.5 / text / list, unknown keyword, other attributes of a wrong type; explicit reference < 2**30 or default), 0..2 objects, valid add_origin (explicit / default reference, own name or the rejected one): all objects and the header carry the valid reference; the ORIGIN set holds the valid origin only, copy 0',
                 ['LogicalFile.add_origin', 'LogicalFile.default_origin_reference', 'OriginItem.__init__'], shards=(9, 9))
_enumhist = _pair('r4', 'soft_enum_history', (120, 300), '4 soft enumerations: a non-member converted twice (same / second converter) in modes m1, m2: each call judged by the mode in force',
                  ['ValidatorEnum.make_converter'])
_chext = _pair('r4', 'channel_extremes', (200, 400), 'index channel declaring MINIMUM-VALUE / MAXIMUM-VALUE; 1..3 rows of values 0..60000: INDEX-MIN / INDEX-MAX are those of the rows',
               ['FrameItem._setup_frame_params_from_data'])
_npint = _pair('r4', 'window_npint', (120, 300), '5 source kinds x 4 rows x every window, from_idx / to_idx as int / np.int64 / int32 / intp / uint16 (concrete: a numpy scalar cannot be symbolic)',
               ['SourceDataWrapper.__init__'], shards=(25, 25))
_staint = _pair('r4', 'setup_taint', (200, 400), 'FrameItem.setup_from_data: 5 source kinds x 1..3 rows x index type or not x cast (none / float32 / same dtype) x data-dependent masks either way; spacing computation replaced by an opaque result (cut)',
                ['FrameItem.setup_from_data', 'FrameItem._setup_frame_params_from_data', 'SourceDataWrapper.__getitem__'],
                replay=R4 + 'replay_setup_taint', validate=R4 + 'replay_setup_taint')
_longl = _longl + _pair('r4', 'long_list_edges', (300, 600), 'list lengths 9, 12, 63..65, 128, 257, 1025 (thorough: + 127, 129, 255, 256, 4097, 16384, 16385, 65537; lengths above 12 run untraced) x first / last position x 8 edges (+-2**31, +-2**32, 2**40, +-2**63, 0) +-2: concrete values (enumeration)',
                        ['Attribute._write_values', 'write_struct'], replay=R4 + 'replay_long_list', validate=R4 + 'replay_long_list', shards=(8, 8))
for _p, _o in (('C01', _sulre), ('C14', _sulre), ('C09', _fhlate), ('C14', _fhlate), ('C07', _alias), ('C05', _alias), ('C14', _alias),
               ('C06', _longl), ('C12', _longl), ('C05', _looka), ('C03', _shared), ('C08', _shared), ('C11', _shared),
               ('C12', _compl), ('C20', _compl), ('C18', _foreign), ('C12', _foreign), ('C20', _rejorig), ('C07', _rejorig),
               ('C14', _enumhist), ('C17', _enumhist), ('C13', _chext), ('C11', _npint), ('C19', _staint)):
    SPECS[_p]['obligations'] = SPECS[_p]['obligations'] + _o
# cross-registrations: the writer loop and the buffer decide "any size is writable / survives" as much as the segmenter
SPECS['C15']['obligations'] = SPECS['C15']['obligations'] + _find('C10', 'ob_glue') + _find('C10', 'reach_glue')
SPECS['C16']['obligations'] = SPECS['C16']['obligations'] + _find('C10', 'ob_buffer_step') + _find('C10', 'reach_buffer_step') + _find('C10', 'wit_buffer_two_flushes')
# C12: a write that returns normally has unique object identities - the copy-number obligations of C07
SPECS['C12']['obligations'] = SPECS['C12']['obligations'] + _find('C07', 'ob_copy_origin') + _find('C07', 'reach_copy_origin') + _find('C07', 'ob_copy_step') + _find('C07', 'reach_copy_step')
# C14: a rejected call is process history - the C20 obligations on rejected calls decide that it leaves nothing behind
SPECS['C14']['obligations'] = SPECS['C14']['obligations'] + _find('C20', 'ob_rejected') + _find('C20', 'reach_rejected') + _find('C20', 'ob_rejected_api') + _find('C20', 'reach_rejected_api')
_ofirst = _pair('c09', 'origin_first', (200, 400), 'every add_* method of LogicalFile (20, by introspection) as the call before add_origin and / or after it, named set or not: FILE-HEADER, then the one ORIGIN set, then the rest (finite, exhaustive)',
                ['DLISFile.generator', 'LogicalFile.add_origin', 'EFLRSetsDict.get_or_make_set'], replay=R + 'order:replay_origin_first', validate=R + 'order:replay_origin_first', shards=(4, 4))
SPECS['C09']['obligations'] = SPECS['C09']['obligations'] + _ofirst
# C04 / C07: the IDENT / OBNAME encoders are part of "every record decodes" and of "every reference resolves"
SPECS['C04']['obligations'] = SPECS['C04']['obligations'] + _find('C06', 'ob_ident_len') + _find('C06', 'reach_ident_len') + _find('C06', 'ob_obname') + _find('C06', 'reach_obname') + _find('C06', 'ob_obname_edges')
SPECS['C07']['obligations'] = SPECS['C07']['obligations'] + _find('C06', 'ob_obname') + _find('C06', 'reach_obname') + _find('C06', 'ob_obname_edges') + _find('C06', 'ob_ident_len') + _find('C06', 'reach_ident_len')
for _p in ('C01', 'C02', 'C16'):
    SPECS[_p]['obligations'] = SPECS[_p]['obligations'] + _find('C10', 'ob_buffer_file') + _find('C10', 'reach_buffer_file')
# C16: "payloads come back exactly" includes their way through the segmenter: the provenance part of the segment contract
# (body ranges contiguous, complete, in order; successor flag cleared exactly on the last segment) and the K2 loop step
SPECS['C16']['obligations'] = (SPECS['C16']['obligations'] + _find('C01', 'ob_seg_contract') + _find('C01', 'reach_seg_contract')
                               + _find('C01', 'wit_seg_three_shortened_padded') + _find('C01', 'k2_segment_step'))
SPECS['C16']['outside'] = [o for o in SPECS['C16']['outside'] if 'segmentation is C02' not in o] + ['record bodies longer than SEG_K*cap+30 for engine A (K2 covers the loop step for all lengths)']
SPECS['C16']['functions'] = SPECS['C16']['functions'] + SEG_FUNCS
SPECS['C04']['obligations'] = SPECS['C04']['obligations'] + _find('C06', 'ob_text_codepoints') + _find('C06', 'reach_text_codepoints')
for _p in ('C15', 'C16'):
    SPECS[_p]['stubs'] = SPECS[_p]['stubs'] + ['RopeArray / MemWriter (buffer and file stand-ins)']
SPECS['C19']['cuts'] = list(SPECS['C19']['cuts']) + ['ob_setup_taint: FrameItem._compute_spacing_and_direction replaced by an opaque result (its value-level behaviour is C13; whether it writes into its argument is not decided)']
