"""C09 / C16.2 — record order inside a logical file, file header component, set registry step."""
from vf.harness.objmodel import (new_file, add_origin, set_kind, PERM4, eflr_types, DLISFile, LogicalFile, THOROUGH,
                                 Rope, flat, lits, RepC)
from vf.harness.common import SHARD_I, SHARD_N
from vf.stubs.lenstr import LenStr
from dliswriter.file.eflr_sets_dict import EFLRSetsDict
from dliswriter.logical_record.eflr_types.file_header import FileHeaderItem, FileHeaderSet


class FakeMFD:
    """Stands for MultiFrameData in DLISFile.generator: an iterable of frame-data markers."""

    def __init__(self, tag, n):
        self.tag, self.n = tag, n

    def __iter__(self):
        return iter([(self.tag, i + 1) for i in range(self.n)])


def order_check(perm_i, named_zone, named_channel, two_origins, nf_first_b):
    df, (lf,) = new_file(1)
    perm = PERM4[perm_i]
    made = {}

    def op_origin():
        made['o1'] = add_origin(lf, 'O1')
        if two_origins:
            made['o2'] = add_origin(lf, 'O2')

    def op_chan_frame():
        ch = lf.add_channel('CH', set_name='CS' if named_channel else None)
        made['fr'] = lf.add_frame('FR', channels=(ch,))

    def op_zone():
        lf.add_zone('Z', set_name='ZS' if named_zone else None)
        lf.add_zone('Z2', set_name=None)

    def op_noformat():
        a = lf.add_no_format('NA')
        b = lf.add_no_format('NB')
        seq = [(b, 'p1'), (a, 'p2'), (b, 'p3')] if nf_first_b else [(a, 'p1'), (b, 'p2'), (a, 'p3')]
        for (o, pl) in seq:
            lf.add_no_format_frame_data(o, pl)
        made['nf'] = [(o.name, pl) for (o, pl) in seq]

    ops = [op_origin, op_chan_frame, op_zone, op_noformat]
    for k in perm:
        ops[k]()
    recs = list(df.generator([[FakeMFD('fd', 2)]]))
    kinds = [set_kind(r) for r in recs]
    # 1. header first, exactly one object
    if kinds[0] != 'FILE-HEADER' or recs[0].n_items != 1 or recs[0] is not lf.file_header_item.parent:
        return 1
    # 2. ORIGIN set next; defining origin first in it
    if kinds[1] != 'ORIGIN':
        return 2
    items = recs[1].get_all_eflr_items()
    if items[0] is not made['o1'] or lf.defining_origin is not made['o1']:
        return 3
    if len(items) != (2 if two_origins else 1):
        return 3
    # 3. every other set exactly once, none empty, all before the first IFLR
    seen = []
    first_iflr = len(recs)
    for i in range(len(recs)):
        if kinds[i] in ('NoFormatFrameData', 'tuple'):
            first_iflr = i
            break
    for i in range(len(recs)):
        r = recs[i]
        if i < first_iflr:
            if not isinstance(getattr(r, 'set_type', None), str):
                return 4
            key = (r.set_type, r.set_name)
            if key in seen:
                return 5
            seen.append(key)
            if r.n_items == 0:
                return 6
        else:
            if isinstance(getattr(r, 'set_type', None), str):
                return 7                  # an EFLR set after the first IFLR
    want_sets = {('FILE-HEADER', None), ('ORIGIN', None), ('CHANNEL', 'CS' if named_channel else None),
                 ('FRAME', None), ('ZONE', None), ('NO-FORMAT', None)}
    if named_zone:
        want_sets.add(('ZONE', 'ZS'))
    if set(seen) != want_sets:
        return 8
    # 4. no-format records in call order, then the frame data
    tail = recs[first_iflr:]
    if len(tail) != 5:
        return 9
    for i in range(3):
        if type(tail[i]).__name__ != 'NoFormatFrameData':
            return 10
        if (tail[i].no_format_object.name, tail[i].data) != made['nf'][i]:
            return 11
    if tail[3] != ('fd', 1) or tail[4] != ('fd', 2):
        return 12
    # 5. every object carries the defining origin's reference (no explicit references here)
    for r in recs[1:first_iflr]:
        for it in r.get_all_eflr_items():
            if r.set_type == 'ORIGIN':
                continue
            if it.origin_reference != made['o1'].origin_reference:
                return 13
    return 0


def ob_order(perm_i: int, named_zone: bool, named_channel: bool, two_origins: bool, nf_first_b: bool) -> int:
    """
    pre: 0 <= perm_i < 24 and perm_i % SHARD_N == SHARD_I
    post: _ == 0
    """
    return order_check(perm_i, named_zone, named_channel, two_origins, nf_first_b)


def reach_order(perm_i: int, named_zone: bool, named_channel: bool, two_origins: bool, nf_first_b: bool) -> int:
    """
    pre: 0 <= perm_i < 24 and perm_i % SHARD_N == SHARD_I
    post: _ != 0
    """
    return order_check(perm_i, named_zone, named_channel, two_origins, nf_first_b)
