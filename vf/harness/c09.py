"""C09 / C16.2 — record order inside a logical file, file header component, set registry step."""
from vf.harness.objmodel import (new_file, add_origin, set_kind, PERM4, eflr_types, DLISFile, LogicalFile, THOROUGH,
                                 Rope, flat, lits, RepC)
from vf.harness.common import SHARD_I, SHARD_N
from vf.stubs.lenstr import LenStr
from dliswriter.file.eflr_sets_dict import EFLRSetsDict
from dliswriter.logical_record.eflr_types.file_header import FileHeaderItem, FileHeaderSet


class FakeMFD:
    """Stands for MultiFrameData in DLISFile.generator: an iterable of frame-data markers."""

    def __init__(self, tag, n):
        self.tag, self.n = tag, n

    def __iter__(self):
        return iter([(self.tag, i + 1) for i in range(self.n)])


def order_check(perm_i, named_zone, named_channel, o_cfg, nf_first_b):
    # o_cfg: 0 one origin (unnamed set); 1 two origins in the unnamed set; 2 first origin in a named set, second in the
    # unnamed one; 3 first unnamed, second named; 4 both in one named set
    two_origins = o_cfg >= 1
    sn1 = 'OS' if o_cfg in (2, 4) else None
    sn2 = 'OS' if o_cfg in (3, 4) else None
    df, (lf,) = new_file(1)
    perm = PERM4[perm_i]
    made = {}

    def op_origin():
        made['o1'] = add_origin(lf, 'O1', set_name=sn1)
        if two_origins:
            made['o2'] = add_origin(lf, 'O2', set_name=sn2)

    def op_chan_frame():
        ch = lf.add_channel('CH', set_name='CS' if named_channel else None)
        made['fr'] = lf.add_frame('FR', channels=(ch,))

    def op_zone():
        lf.add_zone('Z', set_name='ZS' if named_zone else None)
        lf.add_zone('Z2', set_name=None)

    def op_noformat():
        a = lf.add_no_format('NA')
        b = lf.add_no_format('NB')
        seq = [(b, 'p1'), (a, 'p2'), (b, 'p3')] if nf_first_b else [(a, 'p1'), (b, 'p2'), (a, 'p3')]
        for (o, pl) in seq:
            lf.add_no_format_frame_data(o, pl)
        made['nf'] = [(o.name, pl) for (o, pl) in seq]

    ops = [op_origin, op_chan_frame, op_zone, op_noformat]
    for k in perm:
        ops[k]()
    recs = list(df.generator([[FakeMFD('fd', 2)]]))
    kinds = [set_kind(r) for r in recs]
    # 1. header first, exactly one object
    if kinds[0] != 'FILE-HEADER' or recs[0].n_items != 1 or recs[0] is not lf.file_header_item.parent:
        return 1
    # 2. ORIGIN set(s) next; the first one holds the defining origin (the first origin added) as its first object
    if kinds[1] != 'ORIGIN':
        return 2
    items = recs[1].get_all_eflr_items()
    if items[0] is not made['o1'] or lf.defining_origin is not made['o1']:
        return 3
    split = two_origins and sn1 != sn2
    if len(items) != (1 if (split or not two_origins) else 2):
        return 3
    if split:
        if kinds[2] != 'ORIGIN' or recs[2].get_all_eflr_items() != [made['o2']]:
            return 3
    # 3. every other set exactly once, none empty, all before the first IFLR
    seen = []
    first_iflr = len(recs)
    for i in range(len(recs)):
        if kinds[i] in ('NoFormatFrameData', 'tuple'):
            first_iflr = i
            break
    for i in range(len(recs)):
        r = recs[i]
        if i < first_iflr:
            if not isinstance(getattr(r, 'set_type', None), str):
                return 4
            key = (r.set_type, r.set_name)
            if key in seen:
                return 5
            seen.append(key)
            if r.n_items == 0:
                return 6
        else:
            if isinstance(getattr(r, 'set_type', None), str):
                return 7                  # an EFLR set after the first IFLR
    want_sets = {('FILE-HEADER', None), ('ORIGIN', sn1), ('CHANNEL', 'CS' if named_channel else None),
                 ('FRAME', None), ('ZONE', None), ('NO-FORMAT', None)}
    if named_zone:
        want_sets.add(('ZONE', 'ZS'))
    if two_origins:
        want_sets.add(('ORIGIN', sn2))
    if set(seen) != want_sets:
        return 8
    # 4. no-format records in call order, then the frame data
    tail = recs[first_iflr:]
    if len(tail) != 5:
        return 9
    for i in range(3):
        if type(tail[i]).__name__ != 'NoFormatFrameData':
            return 10
        if (tail[i].no_format_object.name, tail[i].data) != made['nf'][i]:
            return 11
    if tail[3] != ('fd', 1) or tail[4] != ('fd', 2):
        return 12
    # 5. every object carries the defining origin's reference (no explicit references here)
    for r in recs[1:first_iflr]:
        for it in r.get_all_eflr_items():
            if r.set_type == 'ORIGIN':
                continue
            if it.origin_reference != made['o1'].origin_reference:
                return 13
    for i in range(len(recs)):
        if kinds[i] == 'ORIGIN' and i > (2 if split else 1):
            return 14                      # ORIGIN sets come immediately after the header
    return 0


def ob_order(perm_i: int, named_zone: bool, named_channel: bool, o_cfg: int, nf_first_b: bool) -> int:
    """
    pre: 0 <= perm_i < 24 and perm_i % SHARD_N == SHARD_I
    pre: 0 <= o_cfg <= 4
    post: _ == 0
    """
    return order_check(perm_i, named_zone, named_channel, o_cfg, nf_first_b)


def reach_order(perm_i: int, named_zone: bool, named_channel: bool, o_cfg: int, nf_first_b: bool) -> int:
    """
    pre: 0 <= perm_i < 24 and perm_i % SHARD_N == SHARD_I
    pre: 0 <= o_cfg <= 4
    post: _ != 0
    """
    return order_check(perm_i, named_zone, named_channel, o_cfg, nf_first_b)


# ------------------------------------------------------------------------------------------------ file header

from vf.rp66 import tokens as tk
from vf.harness.objmodel import reset_global_state, untraced, T0

SEQ_MAX = 9999999999 if THOROUGH else 99999


def _digits_right_text(vals, n, width):
    nd = 1
    lim = 10
    while n >= lim:
        nd = nd + 1
        lim = lim * 10
    if nd > width:
        return False
    m = n
    k = width - 1
    for _ in range(nd):
        if vals[k] != 48 + m % 10:
            return False
        m = m // 10
        k = k - 1
    while k >= 0:
        if vals[k] != 32:
            return False
        k = k - 1
    return True


def file_header_check(seq, s, origin):
    reset_global_state()
    fhs = FileHeaderSet()
    it = FileHeaderItem(s, fhs, sequence_number=seq, identifier='0')
    it.origin_reference = origin
    body = fhs._make_body_bytes()
    (ps, rule) = tk.parse_eflr(flat(body))
    if ps is None:
        return 100 + rule
    if not tk.text_equals(ps.type, 'FILE-HEADER') or ps.name is not None:
        return 1
    if len(ps.template) != 2 or not tk.text_equals(ps.template[0].label, 'SEQUENCE-NUMBER') \
            or not tk.text_equals(ps.template[1].label, 'ID'):
        return 2
    if ps.template[0].code != 20 or ps.template[1].code != 20 or ps.template[0].has_value or ps.template[1].has_value:
        return 3
    if len(ps.objects) != 1:
        return 4
    (ob, attrs) = ps.objects[0]
    if ob[0] != origin or ob[1] != 0 or not tk.text_equals(ob[2], '0'):
        return 5
    if len(attrs) != 2 or attrs[0].absent or attrs[1].absent:
        return 6
    a0, a1 = attrs[0], attrs[1]
    if a0.count != 1 or a0.code != 20 or a0.values[0][0] != 'ascii' or a0.values[0][1][0] != 'lit':
        return 7
    v = a0.values[0][1][1]
    if len(v) != 10 or not _digits_right_text(v, seq, 10):
        return 8                           # sequence number right-justified in 10 characters
    if a1.count != 1 or a1.code != 20 or a1.values[0][0] != 'ascii' or a1.values[0][1][0] != 'lit':
        return 9
    w = a1.values[0][1][1]
    if len(w) != 65:
        return 10
    for k in range(65):
        if k < len(s):
            if w[k] != ord(s[k]):
                return 11
        elif w[k] != 32:
            return 11                      # id left-justified in 65 characters
    return 0


def ob_file_header(seq: int, s: str, origin: int) -> int:
    """
    pre: 1 <= seq <= SEQ_MAX
    pre: len(s) <= 2 and s.isascii()
    pre: 0 <= origin < 1073741824
    post: _ == 0
    """
    return file_header_check(seq, s, origin)


def reach_file_header(seq: int, s: str, origin: int) -> int:
    """
    pre: 1 <= seq <= SEQ_MAX
    pre: len(s) <= 2 and s.isascii()
    pre: 0 <= origin < 1073741824
    post: _ != 0
    """
    return file_header_check(seq, s, origin)


def file_header_reject_check(seq, n):
    reset_global_state()
    s = LenStr(n, 'hid')
    try:
        it = FileHeaderItem(s, FileHeaderSet(), sequence_number=seq, identifier='0')
    except ValueError:
        if n > 65 or seq < 1 or seq > 9999999999:
            return 0
        return 1
    if n > 65 or seq < 1 or seq > 9999999999:
        return 2
    it.origin_reference = 1
    it.sequence_number = 5                 # digits are the subject of ob_file_header; here: the id field length
    f = flat(it._make_attrs_bytes())
    # 0x21, 10, ten literal characters, 0x21, 65, then one source range of 65 characters (id + padding)
    if len(f) != 15 or f[12] != ('b', 33) or f[13] != ('b', 65):
        return 3
    if f[14][0] != 'src' or f[14][3] - f[14][2] != 65:
        return 4
    return 0


def ob_file_header_reject(seq: int, n: int) -> int:
    """
    Over all integers: a header id longer than 65 characters or a sequence number outside 1..10**10-1 is refused at
    construction; otherwise the id field is exactly 65 characters.
    pre: 0 <= n <= 300
    post: _ == 0
    """
    return file_header_reject_check(seq, n)


def reach_file_header_reject(seq: int, n: int) -> int:
    """
    pre: 0 <= n <= 300
    post: _ != 0
    """
    return file_header_reject_check(seq, n)


# ---------------------------------------------------------------------------------------------- registry step

NAMES3 = [None, 'A', 'B']


def registry_check(pre_mask, ci, ni, via_add):
    """From an arbitrary registry state over 2 classes x {None,'A','B'} (bit mask of present sets) one request for
    (class, name) returns the registered set if present, otherwise creates exactly one; add_set refuses duplicates."""
    classes = [eflr_types.ZoneSet, eflr_types.AxisSet]
    reg = EFLRSetsDict()
    present = {}
    for k in range(6):
        if pre_mask // (2 ** k) % 2 == 1:
            c, nm = classes[k // 3], NAMES3[k % 3]
            present[(c, nm)] = reg.get_or_make_set(c, set_name=nm)
    cls, nm = classes[ci], NAMES3[ni]
    before = {k: v for k, v in present.items()}
    if via_add:
        new = cls(set_name=nm)
        try:
            reg.add_set(new)
        except RuntimeError:
            return 0 if (cls, nm) in before else 1
        if (cls, nm) in before:
            return 2
        got = new
    else:
        got = reg.get_or_make_set(cls, set_name=nm)
        if (cls, nm) in before and got is not before[(cls, nm)]:
            return 3
    if got.set_name != nm or type(got) is not cls:
        return 4
    # every earlier entry untouched; exactly one object per (class, name)
    for (c, n2), v in before.items():
        if reg[c][n2] is not v:
            return 5
    total = sum(len(d) for d in reg.values())
    if total != len(before) + (0 if (cls, nm) in before else 1):
        return 6
    if reg.try_add_set(cls(set_name=nm)):
        return 7                           # already present: must not be replaced
    return 0


def ob_registry(pre_mask: int, ci: int, ni: int, via_add: bool) -> int:
    """
    pre: 0 <= pre_mask < 64 and 0 <= ci <= 1 and 0 <= ni <= 2
    post: _ == 0
    """
    return registry_check(pre_mask, ci, ni, via_add)


def reach_registry(pre_mask: int, ci: int, ni: int, via_add: bool) -> int:
    """
    pre: 0 <= pre_mask < 64 and 0 <= ci <= 1 and 0 <= ni <= 2
    post: _ != 0
    """
    return registry_check(pre_mask, ci, ni, via_add)


# ------------------------------------------------------------------------------------- defining-origin parameters

import types as _types
import dliswriter.logical_record.eflr_types.origin as origin_mod
import numpy as _np


class _Clock:
    calls = 0

    @classmethod
    def now(cls):
        cls.calls += 1
        return T0


def origin_params_check(give_fsn, fsn, rnd, give_time, change_file_id):
    """OriginItem consults the RNG / the clock iff the value was not supplied; FILE-SET-NUMBER is always present;
    check_objects' origin check raises iff FILE-ID differs from the header id (and fills it when unset)."""
    df, (lf,) = new_file(1)
    rcalls = []

    def randint(lo, hi):
        rcalls.append((lo, hi))
        return rnd
    real_np, real_dt = origin_mod.np, origin_mod.datetime
    origin_mod.np = _types.SimpleNamespace(iinfo=_np.iinfo, uint32=_np.uint32, random=_types.SimpleNamespace(randint=randint))
    origin_mod.datetime = _Clock
    _Clock.calls = 0
    try:
        o = lf.add_origin('O', file_set_number=fsn if give_fsn else None, creation_time=T0 if give_time else None)
    finally:
        origin_mod.np, origin_mod.datetime = real_np, real_dt
    if give_fsn:
        if len(rcalls) != 0 or o.file_set_number.value != fsn:
            return 1
    else:
        if len(rcalls) != 1 or o.file_set_number.value != rnd:
            return 2
        if rcalls[0][0] != 1 or rcalls[0][1] != 4294967295 - 3221225472:
            return 3                       # documented range: 1 .. largest 4-byte UVARI
    if o.file_set_number.value is None:
        return 4
    if _Clock.calls != (0 if give_time else 1) or o.creation_time.value != T0:
        return 5
    if o.file_id.value != 'LF0':
        return 6
    if change_file_id == 1:
        o.file_id._value = None
    elif change_file_id == 2:
        o.file_id._value = 'OTHER'
    try:
        lf._check_defining_origin_params()
    except ValueError:
        return 0 if change_file_id == 2 else 7
    if change_file_id == 2:
        return 8
    if o.file_id.value != 'LF0':
        return 9
    return 0


def ob_origin_params(give_fsn: bool, fsn: int, rnd: int, give_time: bool, change_file_id: int) -> int:
    """
    pre: 1 <= fsn < 1073741824 and 1 <= rnd < 1073741823
    pre: 0 <= change_file_id <= 2
    post: _ == 0
    """
    return origin_params_check(give_fsn, fsn, rnd, give_time, change_file_id)


def reach_origin_params(give_fsn: bool, fsn: int, rnd: int, give_time: bool, change_file_id: int) -> int:
    """
    pre: 1 <= fsn < 1073741824 and 1 <= rnd < 1073741823
    pre: 0 <= change_file_id <= 2
    post: _ != 0
    """
    return origin_params_check(give_fsn, fsn, rnd, give_time, change_file_id)


# ------------------------------------------------------------------------------------------------- empty sets

from vf.harness.items import ITEM_SETS, N_SETS
from dliswriter.logical_record.core.logical_record.logical_record_bytes import LogicalRecordBytes


def empty_set_check(ci, named, cap):
    """A set without objects (e.g. left behind by a rejected add_* call) produces an empty body and therefore no
    segment at all: it never reaches the file."""
    S = ITEM_SETS[ci]
    s = S(set_name='N' if named else None)
    lrb = s.represent_as_bytes()
    if lrb.size != 0 or len(lrb.bts) != 0:
        return 1
    if len(list(lrb.make_segments(cap))) != 0:
        return 2
    return 0


def ob_empty_set(ci: int, named: bool, cap: int) -> int:
    """
    pre: 0 <= ci < N_SETS
    pre: 12 <= cap <= 16376 and cap % 2 == 0
    post: _ == 0
    """
    return empty_set_check(ci, named, cap)


def reach_empty_set(ci: int, named: bool, cap: int) -> int:
    """
    pre: 0 <= ci < N_SETS
    pre: 12 <= cap <= 16376 and cap % 2 == 0
    post: _ != 0
    """
    return empty_set_check(ci, named, cap)


# ------------------------------------------------ any object kind before the origin: ORIGIN still follows the header
# ob_order permutes four kinds of call; this one takes EVERY add_* method of LogicalFile (found by introspection) and
# makes it the first (or the only other) call of the logical file, before or after add_origin, named set or not.

import inspect as _inspect
from dliswriter.file.file import LogicalFile as _LF

ADDERS = sorted(n for (n, f) in _inspect.getmembers(_LF, _inspect.isfunction)
                if n.startswith('add_') and n not in ('add_origin', 'add_no_format_frame_data'))
N_ADDERS = len(ADDERS)


def origin_first_check(ai, before, named, second_too):
    df, (lf,) = new_file(1)
    meth = ADDERS[ai]
    made = []

    def add_obj(nm):
        kw = {}
        if meth == 'add_frame':
            kw['channels'] = (lf.add_channel('C-' + nm),)
        if named:
            kw['set_name'] = 'SN'
        made.append(getattr(lf, meth)(nm, **kw))

    if before:
        add_obj('X1')
    o = add_origin(lf, 'O1')
    if not before or second_too:
        add_obj('X2')
    recs = list(df.generator([[]]))
    kinds = [set_kind(r) for r in recs]
    if len(kinds) < 3:
        return 1
    if kinds[0] != 'FILE-HEADER':
        return 2
    if kinds[1] != 'ORIGIN':
        return 3                            # something else between the file header and the origin
    if recs[1].get_all_eflr_items() != [o]:
        return 4
    if kinds.count('ORIGIN') != 1 or kinds.count('FILE-HEADER') != 1:
        return 5
    # every object made is in exactly one of the remaining sets
    for it in made:
        n = 0
        for r in recs[2:]:
            if hasattr(r, 'get_all_eflr_items') and it in r.get_all_eflr_items():
                n = n + 1
        if n != 1:
            return 6
    return 0


def ob_origin_first(ai: int, before: bool, named: bool, second_too: bool) -> int:
    """
    pre: 0 <= ai < N_ADDERS and ai % SHARD_N == SHARD_I % 4
    post: _ == 0
    """
    return origin_first_check(ai, before, named, second_too)


def reach_origin_first(ai: int, before: bool, named: bool, second_too: bool) -> int:
    """
    pre: 0 <= ai < N_ADDERS
    post: _ != 0
    """
    return origin_first_check(ai, before, named, second_too)


# ------------------------------------------------- (type, name) at most once in the file - judged on the ENCODED name

SET_NAMES4 = [None, '', 'A', 'B']


def set_names_once_check(ai, n1, n2, n3):
    """Three objects of one type added through LogicalFile.add_* with set names from {None, '', 'A', 'B'} (round 6: an
    empty name is written exactly like no name): among the sets the generator yields, no two of one type have the same
    encoded set component, and none is empty."""
    from vf.harness.common import lits
    df, (lf,) = new_file(1)
    add_origin(lf, 'O')
    meth = [lf.add_zone, lf.add_axis, lf.add_comment, lf.add_parameter][ai]
    for (k, ni) in enumerate((n1, n2, n3)):
        meth('X%d' % k, set_name=SET_NAMES4[ni])
    seen = []
    for r in df.generator([[]]):
        if not isinstance(getattr(r, 'set_type', None), str):
            continue
        if r.n_items == 0:
            return 1
        key = (r.set_type, tuple(lits(r._make_set_component_bytes())))
        if key in seen:
            return 2                       # two sets of one type carry the same (possibly absent) name in the file
        seen.append(key)
    return 0


def ob_set_names_once(ai: int, n1: int, n2: int, n3: int) -> int:
    """
    pre: 0 <= ai <= 3 and 0 <= n1 <= 3 and 0 <= n2 <= 3 and 0 <= n3 <= 3
    pre: (ai * 4 + n1) % SHARD_N == SHARD_I % 16
    post: _ == 0
    """
    return set_names_once_check(ai, n1, n2, n3)


def reach_set_names_once(ai: int, n1: int, n2: int, n3: int) -> int:
    """
    pre: 0 <= ai <= 3 and 0 <= n1 <= 3 and 0 <= n2 <= 3 and 0 <= n3 <= 3
    post: _ != 0
    """
    return set_names_once_check(ai, n1, n2, n3)
