"""C16 — no-format payloads: body == reference || payload, text -> ASCII, call order preserved."""
from vf.harness.common import THOROUGH, Rope, flat, lits, RepC
from vf.stubs.rope import BytesRope, BytearrayRope
from vf.stubs.lenstr import LenStr
from vf.harness.c06 import uvari_expect, obname_tokens_check

from dliswriter.logical_record.iflr_types.no_format_frame_data import NoFormatFrameData
from dliswriter.logical_record.eflr_types.no_format import NoFormatItem, NoFormatSet

PAYLOAD_MAX = 1073741824 if THOROUGH else 40000


def _nf_item(origin, copy, n):
    it = NoFormatItem.__new__(NoFormatItem)
    object.__setattr__(it, 'name', LenStr(n, 'name'))
    object.__setattr__(it, '_origin_reference', origin)
    object.__setattr__(it, '_copy_number', copy)
    object.__setattr__(it, '_parent', NoFormatSet())
    return it


def noformat_body_check(origin, copy, n, m, kind):
    it = _nf_item(origin, copy, n)
    if kind == 0:
        data = BytesRope(Rope.source('payload', m))
    elif kind == 1:
        data = BytearrayRope(Rope.source('payload', m))
    else:
        data = LenStr(m, 'payload')
    rec = NoFormatFrameData(it, data)
    body = rec._make_body_bytes()
    f = flat(body)
    used = obname_tokens_check(f, origin, copy, n)
    if used < 0:
        return 1
    rest = f[used:]
    if m == 0:
        if len(rest) != 0:
            return 2
    else:
        if len(rest) != 1 or rest[0] != ('src', 'payload', 0, m):
            return 3                       # something appended, removed or altered
    if kind == 2 and data.encodings != [('ascii', 'strict')]:
        return 4
    if len(body) != len(uvari_expect(origin)) + 2 + n + m:
        return 5
    lrb = rec.represent_as_bytes()
    if lrb._is_eflr or lits(lrb._lr_type_struct) != [1]:
        return 6
    return 0


def ob_noformat_body(origin: int, copy: int, n: int, m: int, kind: int) -> int:
    """
    pre: 0 <= origin < 1073741824 and 0 <= copy <= 255 and 1 <= n <= 255
    pre: 0 <= m <= PAYLOAD_MAX
    pre: 0 <= kind <= 2
    post: _ == 0
    """
    return noformat_body_check(origin, copy, n, m, kind)


def reach_noformat_body(origin: int, copy: int, n: int, m: int, kind: int) -> int:
    """
    pre: 0 <= origin < 1073741824 and 0 <= copy <= 255 and 1 <= n <= 255
    pre: 0 <= m <= PAYLOAD_MAX
    pre: 0 <= kind <= 2
    post: _ != 0
    """
    return noformat_body_check(origin, copy, n, m, kind)


def noformat_rename_check(origin, origin2, n, n2, m, rename, retarget):
    """A no-format record serialised once (a first write), then its NO-FORMAT object renamed / moved to another origin,
    or the record pointed at another object: the next serialisation opens with the CURRENT identity of its object."""
    it = NoFormatItem(LenStr(n, 'old'), NoFormatSet(), origin_reference=origin)
    other = NoFormatItem(LenStr(n2, 'new'), NoFormatSet(), origin_reference=origin2)
    rec = NoFormatFrameData(it, BytesRope(Rope.source('payload', m)))
    first = flat(rec._make_body_bytes())
    want1 = [('b', v) for v in uvari_expect(origin) + [0, n]] + [('src', 'old', 0, n)]
    if first[:len(want1)] != want1:
        return 1
    if retarget:
        rec.no_format_object = other
    else:
        if rename:
            it.name = LenStr(n2, 'new')
        it.origin_reference = origin2
    second = flat(rec._make_body_bytes())
    if retarget or rename:
        wname, wn = ('src', 'new', 0, n2), n2
    else:
        wname, wn = ('src', 'old', 0, n), n
    want2 = [('b', v) for v in uvari_expect(origin2) + [0, wn]] + [wname]
    if second[:len(want2)] != want2:
        return 2
    rest = second[len(want2):]
    if (m == 0 and len(rest) != 0) or (m > 0 and rest != [('src', 'payload', 0, m)]):
        return 3
    return 0


def ob_noformat_rename(origin: int, origin2: int, n: int, n2: int, m: int, rename: bool, retarget: bool) -> int:
    """
    pre: 0 <= origin < 1073741824 and 0 <= origin2 < 1073741824 and 1 <= n <= 255 and 1 <= n2 <= 255
    pre: 0 <= m <= 40000
    post: _ == 0
    """
    return noformat_rename_check(origin, origin2, n, n2, m, rename, retarget)


def reach_noformat_rename(origin: int, origin2: int, n: int, n2: int, m: int, rename: bool, retarget: bool) -> int:
    """
    pre: 0 <= origin < 1073741824 and 0 <= origin2 < 1073741824 and 1 <= n <= 255 and 1 <= n2 <= 255
    pre: 0 <= m <= 40000
    post: _ != 0
    """
    return noformat_rename_check(origin, origin2, n, n2, m, rename, retarget)


def wit_noformat_short(n: int, m: int) -> bool:
    """
    Reference + payload shorter than 12 bytes.
    pre: 1 <= n <= 3 and 0 <= m <= 4
    post: not _
    """
    return noformat_body_check(0, 0, n, m, 0) == 0


def noformat_text_check(s):
    it = _nf_item(1, 0, 2)
    rec = NoFormatFrameData(it, s)
    body = rec._make_body_bytes()
    f = flat(body)
    used = obname_tokens_check(f, 1, 0, 2)
    if used < 0:
        return 1
    rest = f[used:]
    if len(rest) != len(s):
        return 2
    for i in range(len(s)):
        if rest[i] != ('b', ord(s[i])):
            return 3
    return 0


def ob_noformat_text(s: str) -> int:
    """
    pre: len(s) <= 3 and s.isascii()
    post: _ == 0
    """
    return noformat_text_check(s)


def reach_noformat_text(s: str) -> int:
    """
    pre: len(s) <= 3 and s.isascii()
    post: _ != 0
    """
    return noformat_text_check(s)
