"""C10 / C02 / C01 glue — BufferedOutput step, ByteWriter over a fake file system, chunk-size check, and the
record -> segment -> visible record -> buffer -> writer composition on the real ``write_logical_records``."""
from vf.harness.common import THOROUGH, Rope, flat, lits, RepC, pad_info, SHARD_I, SHARD_N

from dliswriter.logical_record.core.logical_record.logical_record_bytes import LogicalRecordBytes
from dliswriter.logical_record.core.logical_record.logical_record import LogicalRecord
from dliswriter.file import writer as writer_mod
from dliswriter.file.writer import DLISWriter, BufferedOutput, ByteWriter
from vf.stubs.memio import MemWriter, RopeArray, FakeFS, install_buffer_stub

install_buffer_stub(writer_mod)


def merged_sources(ropes):
    """Concatenate ropes; merge adjacent ranges of the same source; drop empties. -> token list."""
    out = []
    for r in ropes:
        for t in flat(r):
            if t[0] == 'src':
                if t[3] <= t[2]:
                    continue
                if out and out[-1][0] == 'src' and out[-1][1] == t[1] and out[-1][3] == t[2]:
                    out[-1] = ('src', t[1], out[-1][2], t[3])
                else:
                    out.append(t)
            else:
                out.append(t)
    return out


# ------------------------------------------------------------------------------------------------ buffer step

def buffer_step_check(B, f, s1, s2, explicit):
    bo = BufferedOutput.__new__(BufferedOutput)
    arr = RopeArray(B)
    if f > 0:
        arr[0:f] = Rope.source('old', f)
    w = MemWriter()
    bo._bts = arr
    bo._filled_size = f
    bo._buffer_size = B
    bo._writer = w
    arrays = [arr]
    if explicit:
        bo.add_bytes(Rope.source('a', s1), s1)
    else:
        bo.add_bytes(Rope.source('a', s1))
    arrays.append(bo._bts)
    if explicit:
        bo.add_bytes(Rope.source('b', s2), s2)
    else:
        bo.add_bytes(Rope.source('b', s2))
    arrays.append(bo._bts)
    bo.pass_bytes_to_writer()
    for a in arrays:
        if a.resized:
            return 1                      # a slice assignment whose length differs from the slice: bytearray resizes
    want = []
    if f > 0:
        want.append(('src', 'old', 0, f))
    want.append(('src', 'a', 0, s1))
    want.append(('src', 'b', 0, s2))
    got = merged_sources([r for (r, _sz) in w.writes])
    if got != want:
        return 2
    pos = 0
    for (r, sz) in w.writes:
        n = len(r)
        if sz is not None and sz != n:
            return 3
        if n > B:
            return 4
        pos = pos + n
        if not (pos == 0 or pos == f or pos == f + s1 or pos == f + s1 + s2):
            return 5                      # a flush that does not end on a visible-record boundary
    if w.total_size != f + s1 + s2:
        return 6
    if bo._filled_size != 0:
        return 7
    return 0


def ob_buffer_step(B: int, f: int, s1: int, s2: int, explicit: bool) -> int:
    """
    From an arbitrary buffer state (size B, fill f holding whole visible records) two adds and the final flush:
    every byte reaches the writer exactly once, in order; every flush ends on a record boundary and is <= B.
    pre: 20 <= B <= 8589934592
    pre: 0 <= f <= B
    pre: 20 <= s1 <= 16384 and 20 <= s2 <= 16384 and s1 <= B and s2 <= B
    post: _ == 0
    """
    return buffer_step_check(B, f, s1, s2, explicit)


def reach_buffer_step(B: int, f: int, s1: int, s2: int, explicit: bool) -> int:
    """
    pre: 20 <= B <= 8589934592
    pre: 0 <= f <= B
    pre: 20 <= s1 <= 16384 and 20 <= s2 <= 16384 and s1 <= B and s2 <= B
    post: _ != 0
    """
    return buffer_step_check(B, f, s1, s2, explicit)


def wit_buffer_two_flushes(B: int, f: int, s1: int, s2: int) -> bool:
    """
    pre: 20 <= B <= 100000 and 0 < f <= B
    pre: 20 <= s1 <= 16384 and 20 <= s2 <= 16384 and s1 <= B and s2 <= B
    pre: f + s1 > B and s1 + s2 > B
    post: not _
    """
    return buffer_step_check(B, f, s1, s2, False) == 0


# ------------------------------------------------------- buffer + REAL ByteWriter over the fake file system (the seam)
# ob_buffer_step stands a recording writer behind the buffer; a change on BOTH sides of that seam (what the buffer hands
# over / what the writer does with it) is invisible to it.  Here the real BufferedOutput feeds the real ByteWriter, the
# file is the FakeFS model (prior content of arbitrary length, or no file), and what is judged is the file itself - after
# every close: label + whole visible records so far, nothing else; at the end: exactly the label and the three records.

_MISSING = object()


def buffer_file_check(B, had_file, n0, s1, s2, s3, explicit, n_recs):
    from vf.stubs.memio import kmemoryview
    fs = FakeFS({'out': Rope.source('prior', n0)} if had_file else {})
    prev = {k: writer_mod.__dict__.get(k, _MISSING) for k in ('open', 'os', 'memoryview')}
    writer_mod.open = fs.open
    writer_mod.os = fs.os_shim()
    writer_mod.memoryview = kmemoryview
    try:
        bw = ByteWriter('out')
        bw.write_bytes(Rope.source('sul', 80))            # DLISWriter.write_storage_unit_label: straight to the writer
        bo = BufferedOutput(B, bw)
        sizes = [s1, s2, s3][:n_recs]
        names = ['a', 'b', 'c']
        for k in range(n_recs):
            r = Rope.source(names[k], sizes[k])
            if explicit:
                bo.add_bytes(r, sizes[k])
            else:
                bo.add_bytes(r)
        bo.pass_bytes_to_writer()                          # the end of DLISWriter.write_logical_records
        want = [('src', 'sul', 0, 80)] + [('src', names[k], 0, sizes[k]) for k in range(n_recs)]
        got = merged_sources([fs.files['out']])
        if got != want:
            return 1                                       # the file is not label + records (lost / extra / stale bytes)
        if bw.total_size != 80 + sum(sizes):
            return 2
        bounds = [80]
        for k in range(n_recs):
            bounds.append(bounds[-1] + sizes[k])
        for snap in fs.snapshots:
            n = len(snap)
            if n not in bounds:
                return 3                                   # on disk: something that is not a whole number of records
            if merged_sources([snap]) != want[:bounds.index(n) + 1]:
                return 4
        return 0
    finally:
        for (k, v) in prev.items():
            if v is _MISSING:
                writer_mod.__dict__.pop(k, None)
            else:
                setattr(writer_mod, k, v)


def ob_buffer_file(B: int, had_file: bool, n0: int, s1: int, s2: int, s3: int, explicit: bool, n_recs: int) -> int:
    """
    pre: 20 <= B <= 8589934592 and 0 <= n0 <= 100000 and 1 <= n_recs <= 3
    pre: 20 <= s1 <= 16384 and 20 <= s2 <= 16384 and 20 <= s3 <= 16384 and s1 <= B and s2 <= B and s3 <= B
    post: _ == 0
    """
    return buffer_file_check(B, had_file, n0, s1, s2, s3, explicit, n_recs)


def reach_buffer_file(B: int, had_file: bool, n0: int, s1: int, s2: int, s3: int, explicit: bool, n_recs: int) -> int:
    """
    pre: 20 <= B <= 8589934592 and 0 <= n0 <= 100000 and 1 <= n_recs <= 3
    pre: 20 <= s1 <= 16384 and 20 <= s2 <= 16384 and 20 <= s3 <= 16384 and s1 <= B and s2 <= B and s3 <= B
    post: _ != 0
    """
    return buffer_file_check(B, had_file, n0, s1, s2, s3, explicit, n_recs)


# -------------------------------------------------------------------------------------------------- ByteWriter

def bytewriter_check(n0, n1, n2, n3, explicit):
    fs = FakeFS({'out': Rope.source('prior', n0)})
    writer_mod.open = fs.open
    _prev_os = writer_mod.__dict__.get('os', _MISSING)
    writer_mod.os = fs.os_shim()           # a writer that asks the OS about its target is answered by the same model
    try:
        bw = ByteWriter('out')
        sizes = [n1, n2, n3]
        names = ['w1', 'w2', 'w3']
        for k in range(3):
            r = Rope.source(names[k], sizes[k])
            if explicit:
                bw.write_bytes(r, sizes[k])
            else:
                bw.write_bytes(r)
            # after write k the file is the concatenation of the first k+1 payloads (prior content gone)
            want = [('src', names[j], 0, sizes[j]) for j in range(k + 1) if sizes[j] > 0]
            if merged_sources([fs.files['out']]) != want:
                return 1 + k
        if fs.log != [('out', 'wb'), ('out', 'ab'), ('out', 'ab')]:
            return 5
        if bw.total_size != n1 + n2 + n3:
            return 6
    finally:
        del writer_mod.open
        if _prev_os is _MISSING:
            writer_mod.__dict__.pop('os', None)
        else:
            writer_mod.os = _prev_os
    return 0


def ob_bytewriter(n0: int, n1: int, n2: int, n3: int, explicit: bool) -> int:
    """
    A pre-existing file is replaced by the first write, later writes append, total_size is the number of bytes.
    pre: 0 <= n0 <= 1000000 and 1 <= n1 <= 1000000 and 1 <= n2 <= 1000000 and 1 <= n3 <= 1000000
    post: _ == 0
    """
    return bytewriter_check(n0, n1, n2, n3, explicit)


def reach_bytewriter(n0: int, n1: int, n2: int, n3: int, explicit: bool) -> int:
    """
    pre: 0 <= n0 <= 1000000 and 1 <= n1 <= 1000000 and 1 <= n2 <= 1000000 and 1 <= n3 <= 1000000
    post: _ != 0
    """
    return bytewriter_check(n0, n1, n2, n3, explicit)


# --------------------------------------------------------------------------------------------- chunk-size check

def chunk_size_check(vrl, c):
    w = DLISWriter.__new__(DLISWriter)
    w._visible_record_length = vrl
    try:
        w._check_output_chunk_size(c)
    except ValueError:
        ok = False
    else:
        ok = True
    if ok == (c >= vrl):
        return 0
    return 1


def ob_chunk_size(vrl: int, c: int) -> int:
    """
    Integer chunk sizes over all of Z: accepted iff >= the maximum record length.
    pre: 20 <= vrl <= 16384
    post: _ == 0
    """
    return chunk_size_check(vrl, c)


def reach_chunk_size(vrl: int, c: int) -> int:
    """
    pre: 20 <= vrl <= 16384
    post: _ != 0
    """
    return chunk_size_check(vrl, c)


# ------------------------------------------------------------------------------------------------------- glue

class StubRecord:
    def __init__(self, name, L, t, is_eflr):
        self.name, self.L, self.t, self.is_eflr = name, L, t, is_eflr

    def represent_as_bytes(self):
        return LogicalRecordBytes(Rope.source(self.name, self.L), Rope.lit([self.t]), self.is_eflr)


GLUE_VRL_LO = 20
GLUE_VRL_HI = 128 if THOROUGH else 64


def glue_check(vrl, L1, L2, chunk, use_default_chunk):
    """Two records (one EFLR, one IFLR) through the real write_logical_records with MemWriter."""
    w = DLISWriter.__new__(DLISWriter)
    mem = MemWriter()
    w._byte_writer = mem
    w._visible_record_length = vrl
    w._fmt_version = RepC.USHORT.convert(255) + RepC.USHORT.convert(1)
    w._sul_written = True
    recs = [StubRecord('r1', L1, 0, True), StubRecord('r2', L2, 1, False)]
    w.write_logical_records(recs, None if use_default_chunk else chunk)
    eff_chunk = 4294967296 if use_default_chunk else (int(chunk) if type(chunk) is float else chunk)
    toks = merged_sources([r for (r, _sz) in mem.writes])
    # flush boundaries (absolute positions) and sizes
    cuts = []
    pos = 0
    for (r, sz) in mem.writes:
        n = len(r)
        if n > eff_chunk:
            return 1
        pos = pos + n
        cuts.append(pos)
    total = pos
    if mem.total_size != total:
        return 2
    # parse the visible-record stream
    k = 0
    pos = 0
    cur = 0                       # which record we are in (0 -> r1, 1 -> r2)
    names = ['r1', 'r2']
    lens = [L1, L2]
    rpos = 0                      # position inside the current record body
    ci = 0
    first_of_record = True
    n_tok = len(toks)
    while k < n_tok:
        if k + 8 >= n_tok:
            return 3
        for j in range(8):
            if toks[k + j][0] != 'b':
                return 3
        vlen = toks[k][1] * 256 + toks[k + 1][1]
        if toks[k + 2][1] != 255 or toks[k + 3][1] != 1:
            return 4
        if vlen % 2 != 0 or vlen < 20 or vlen > vrl:
            return 5
        slen = toks[k + 4][1] * 256 + toks[k + 5][1]
        if slen != vlen - 4:
            return 6                      # exactly one segment per visible record
        attr = toks[k + 6][1]
        typ = toks[k + 7][1]
        body = toks[k + 8]
        if body[0] != 'src' or cur > 1 or body[1] != names[cur] or body[2] != rpos:
            return 7
        blen = body[3] - body[2]
        pad = attr % 2
        is_last = body[3] == lens[cur]
        want = (128 if cur == 0 else 0) + (0 if first_of_record else 64) + (0 if is_last else 32)
        if attr - pad != want or typ != cur:
            return 8
        npad = slen - 4 - blen
        if npad < 0 or (npad > 0) != (pad == 1):
            return 9
        # pad tokens: everything up to the next visible-record header ('b' tokens) - count them by value
        ntok_pad = 0
        got = 0
        lastv = 0
        while got < npad:
            if k + 9 + ntok_pad >= n_tok:
                return 9
            t = toks[k + 9 + ntok_pad]
            if t[0] == 'b':
                got = got + 1
                lastv = t[1]
            elif t[0] == 'rep':
                got = got + t[2]
                lastv = t[1]
            else:
                return 9
            ntok_pad = ntok_pad + 1
        if got != npad or (npad > 0 and lastv != npad):
            return 9
        pos = pos + vlen
        # flushes may only happen at visible-record boundaries
        while ci < len(cuts) and cuts[ci] < pos:
            if cuts[ci] != pos - vlen:
                return 10
            ci = ci + 1
        k = k + 9 + ntok_pad
        rpos = body[3]
        first_of_record = False
        if is_last:
            cur = cur + 1
            rpos = 0
            first_of_record = True
    if cur != 2 or pos != total:
        return 11
    return 0


GLUE_L2_EXTRA = 12 if THOROUGH else -8          # quick: the second record fits one segment


def ob_glue(vrl: int, L1: int, L2: int, chunk: int) -> int:
    """
    Monolithic wiring check at small bounds: two records through the real segmenter, wrapper, buffer and writer stub.
    pre: GLUE_VRL_LO <= vrl <= GLUE_VRL_HI and vrl % 2 == 0
    pre: 1 <= L1 <= vrl + 12 and 1 <= L2 <= vrl + GLUE_L2_EXTRA
    pre: vrl <= chunk <= 3 * vrl
    post: _ == 0
    """
    return glue_check(vrl, L1, L2, chunk, False)


def reach_glue(vrl: int, L1: int, L2: int, chunk: int) -> int:
    """
    pre: GLUE_VRL_LO <= vrl <= GLUE_VRL_HI and vrl % 2 == 0
    pre: 1 <= L1 <= vrl + 12 and 1 <= L2 <= vrl + GLUE_L2_EXTRA
    pre: vrl <= chunk <= 3 * vrl
    post: _ != 0
    """
    return glue_check(vrl, L1, L2, chunk, False)


FLOAT_CHUNKS = [64.0, 1048576.0]
GF_STEP = 2 if THOROUGH else 4
GF_N = 15 if THOROUGH else 8

try:
    from crosshair import realize as _realize
except ImportError:
    def _realize(x):
        return x


def ob_glue_float(vrl: int, L1: int, L2: int, k: int) -> int:
    """
    An accepted chunk size may be a float with zero decimal part: same obligations as ob_glue, chunk a concrete float
    (symbolic floats are not decided by the engine), record length and body lengths symbolic.
    pre: GLUE_VRL_LO <= vrl <= 48 and vrl % 2 == 0 and (SHARD_N == 1 or vrl == 20 + GF_STEP * (SHARD_I % GF_N))
    pre: 1 <= L1 <= vrl + 12 and 1 <= L2 <= vrl + GLUE_L2_EXTRA
    pre: 0 <= k < 2
    post: _ == 0
    """
    return glue_check(_realize(vrl), L1, L2, 64.0 if _realize(k) == 0 else 1048576.0, False)


def reach_glue_float(vrl: int, L1: int, L2: int, k: int) -> int:
    """
    pre: GLUE_VRL_LO <= vrl <= 48 and vrl % 2 == 0
    pre: 1 <= L1 <= vrl + 12 and 1 <= L2 <= vrl + GLUE_L2_EXTRA
    pre: 0 <= k < 2
    post: _ != 0
    """
    return glue_check(_realize(vrl), L1, L2, 64.0 if _realize(k) == 0 else 1048576.0, False)


def wit_glue_multi(vrl: int, L1: int, L2: int, chunk: int) -> bool:
    """
    Both records need two segments and the output is flushed more than once.
    pre: 32 <= vrl <= GLUE_VRL_HI and vrl % 2 == 0
    pre: vrl - 8 < L1 <= vrl + 12 and vrl - 8 < L2 <= vrl + 12
    pre: vrl <= chunk < 2 * vrl
    post: not _
    """
    return glue_check(vrl, L1, L2, chunk, False) == 0


def sul_required_check():
    w = DLISWriter.__new__(DLISWriter)
    w._byte_writer = MemWriter()
    w._visible_record_length = 64
    w._fmt_version = RepC.USHORT.convert(255) + RepC.USHORT.convert(1)
    w._sul_written = False
    try:
        w.write_logical_records([], None)
    except RuntimeError:
        return 0
    return 1


# --------------------------------------------------------------------------------------- record type bytes (C02/C14)

def _all_lr_classes():
    from dliswriter.logical_record import eflr_types
    from dliswriter.logical_record.iflr_types.frame_data import FrameData
    from dliswriter.logical_record.iflr_types.no_format_frame_data import NoFormatFrameData
    out = []
    seen = set()
    stack = [LogicalRecord]
    while stack:
        c = stack.pop()
        for s in c.__subclasses__():
            if s not in seen:
                seen.add(s)
                stack.append(s)
                if isinstance(getattr(s, 'logical_record_type', NotImplemented), int):
                    out.append(s)
    out.sort(key=lambda c: c.__name__)
    return out


LR_CLASSES = _all_lr_classes()
N_LR = len(LR_CLASSES)


def lr_type_check(i, j):
    for c in LR_CLASSES:
        c._lr_type_struct = b''
    a, b = LR_CLASSES[i], LR_CLASSES[j]
    ra = lits(a.lr_type_struct)
    rb = lits(b.lr_type_struct)
    ra2 = lits(a.lr_type_struct)
    if ra != [int(a.logical_record_type)] or rb != [int(b.logical_record_type)] or ra2 != ra:
        return 1
    from dliswriter.logical_record.core.eflr.eflr_set import EFLRSet
    if a.is_eflr != issubclass(a, EFLRSet) or b.is_eflr != issubclass(b, EFLRSet):
        return 2
    return 0


def ob_lr_type(i: int, j: int) -> int:
    """
    For every pair of logical record classes and either order of first access the cached type byte is the class's own.
    pre: 0 <= i < N_LR and 0 <= j < N_LR
    post: _ == 0
    """
    return lr_type_check(i, j)


def reach_lr_type(i: int, j: int) -> int:
    """
    pre: 0 <= i < N_LR and 0 <= j < N_LR
    post: _ != 0
    """
    return lr_type_check(i, j)


# --------------------------------------------------------------------------------------------------- wiring
# Compositional argument (DESIGN 4, C01): a written file is  SUL || for each record, for each segment yielded by
# make_segments(vrl - 8):  add_bytes(_make_visible_record(segment, size))  || final flush.  ob_wiring proves exactly
# that call structure on the real write_logical_records for symbolic segment counts and sizes, with recording stubs at
# the three seams whose own contracts are O1.1 (segmenter), O1.2 (wrapper, real here) and O10.1 (buffer step).

from vf.stubs.memio import StubGap  # noqa: E402


class _Recording:
    """Recording stand-ins know only the seam they record; anything else the code under analysis asks of them is a
    stub gap (the obligation becomes inconclusive), never an AttributeError that looks like a counterexample."""

    def __getattr__(self, name):
        if name.startswith('__'):
            raise AttributeError(name)
        raise StubGap(f'{type(self).__name__}.{name} is not part of the recorded seam')


class RecLRB(_Recording):
    def __init__(self, name, sizes, log):
        self.name, self.sizes, self.log = name, sizes, log

    def make_segments(self, cap):
        self.log.append(('make_segments', self.name, cap))
        i = 0
        for sz in self.sizes:
            self.log.append(('yield', self.name, i))
            yield Rope.source(self.name + str(i), sz), sz
            i = i + 1


class RecRecord(_Recording):
    def __init__(self, name, sizes, log):
        self.name, self.sizes, self.log = name, sizes, log

    def represent_as_bytes(self):
        self.log.append(('represent', self.name))
        return RecLRB(self.name, self.sizes, self.log)


class RecOutput(_Recording):
    instances = []

    def __init__(self, size, writer):
        self.size, self.writer, self.adds, self.flushed = size, writer, [], 0
        RecOutput.instances.append(self)

    def add_bytes(self, bts, size=None):
        if self.flushed:
            self.adds.append('add-after-flush')
        self.adds.append((bts, size))

    def pass_bytes_to_writer(self, *a, **k):
        self.flushed = self.flushed + 1


def wiring_check(vrl, n1, n2, a, b, c, chunk, default_chunk, declared=None):
    w = DLISWriter.__new__(DLISWriter)
    mem = MemWriter()
    w._byte_writer = mem
    w._visible_record_length = vrl
    w._fmt_version = RepC.USHORT.convert(255) + RepC.USHORT.convert(1)
    w._sul_written = True
    log = []
    sizes = [a, b, c]
    recs = [RecRecord('p', sizes[:n1], log), RecRecord('q', sizes[:n2], log)]
    if declared is not None:
        # the way DLISFile.write hands the records over: a generator with a declared (approximate) length
        recs = SizedGenerator((r for r in recs), declared)
    RecOutput.instances = []
    real_bo = writer_mod.BufferedOutput
    writer_mod.BufferedOutput = RecOutput
    try:
        w.write_logical_records(recs, None if default_chunk else chunk)
    finally:
        writer_mod.BufferedOutput = real_bo
    if len(RecOutput.instances) != 1:
        return 1
    out = RecOutput.instances[0]
    if out.writer is not mem:
        return 2
    if out.size != (4294967296 if default_chunk else chunk):
        return 3
    if out.flushed != 1:
        return 4
    # order of seam events: represent p, make_segments(p, vrl-8), yields..., represent q, ...
    want = [('represent', 'p'), ('make_segments', 'p', vrl - 8)] + [('yield', 'p', i) for i in range(n1)] + \
           [('represent', 'q'), ('make_segments', 'q', vrl - 8)] + [('yield', 'q', i) for i in range(n2)]
    if log != want:
        return 5
    exp = [('p', i, sizes[i]) for i in range(n1)] + [('q', i, sizes[i]) for i in range(n2)]
    if len(out.adds) != len(exp):
        return 6
    for k in range(len(exp)):
        ad = out.adds[k]
        if ad == 'add-after-flush':
            return 7
        (vr, sz) = ad
        (nm, i, ssz) = exp[k]
        f = flat(vr)
        if len(f) != 5:
            return 8
        if f[0][1] * 256 + f[1][1] != ssz + 4 or f[2][1] != 255 or f[3][1] != 1:
            return 9
        if f[4] != ('src', nm + str(i), 0, ssz):
            return 10
        if sz is not None and sz != ssz + 4:
            return 11
    return 0


def ob_wiring(vrl: int, n1: int, n2: int, a: int, b: int, c: int, chunk: int, default_chunk: bool) -> int:
    """
    pre: 20 <= vrl <= 16384 and vrl % 2 == 0
    pre: 0 <= n1 <= 3 and 0 <= n2 <= 3
    pre: 16 <= a <= vrl - 4 and 16 <= b <= vrl - 4 and 16 <= c <= vrl - 4
    pre: vrl <= chunk <= 8589934592
    post: _ == 0
    """
    return wiring_check(vrl, n1, n2, a, b, c, chunk, default_chunk)


def ob_sized_wiring(vrl: int, n1: int, n2: int, a: int, declared: int) -> int:
    """
    The records arrive as a SizedGenerator whose declared length is only the progress-bar maximum (DLISFile counts
    objects, not records): whatever it says (at least the number of records: a smaller maximum makes the progress bar raise, see
    ob_declared_count) every record is written.
    pre: 20 <= vrl <= 16384 and vrl % 2 == 0
    pre: 0 <= n1 <= 3 and 0 <= n2 <= 3
    pre: 16 <= a <= vrl - 4
    pre: 2 <= declared <= 6
    post: _ == 0
    """
    return wiring_check(vrl, n1, n2, a, a, a, vrl, True, declared)


def reach_sized_wiring(vrl: int, n1: int, n2: int, a: int, declared: int) -> int:
    """
    pre: 20 <= vrl <= 16384 and vrl % 2 == 0
    pre: 0 <= n1 <= 3 and 0 <= n2 <= 3
    pre: 16 <= a <= vrl - 4
    pre: 2 <= declared <= 6
    post: _ != 0
    """
    return wiring_check(vrl, n1, n2, a, a, a, vrl, True, declared)


def reach_wiring(vrl: int, n1: int, n2: int, a: int, b: int, c: int, chunk: int, default_chunk: bool) -> int:
    """
    pre: 20 <= vrl <= 16384 and vrl % 2 == 0
    pre: 0 <= n1 <= 3 and 0 <= n2 <= 3
    pre: 16 <= a <= vrl - 4 and 16 <= b <= vrl - 4 and 16 <= c <= vrl - 4
    pre: vrl <= chunk <= 8589934592
    post: _ != 0
    """
    return wiring_check(vrl, n1, n2, a, b, c, chunk, default_chunk)


# ------------------------------------------------------------------------------------- DLISFile.write wiring
from dliswriter.utils.internal.sized_generator import SizedGenerator  # noqa: E402
import dliswriter.file.file as file_mod
from dliswriter.file.file import DLISFile
from dliswriter.logical_record.misc.storage_unit_label import StorageUnitLabel


class RecDLISWriter:
    log = []

    def __init__(self, filename, visible_record_length=8192):
        RecDLISWriter.log.append(('init', filename, visible_record_length))

    def write_storage_unit_label(self, sul):
        RecDLISWriter.log.append(('sul', sul))

    def write_logical_records(self, records, output_chunk_size=None):
        RecDLISWriter.log.append(('records', records, output_chunk_size))


def write_wiring_check(mrl_label, mrl_ctor, own_label, in_chunk, out_chunk, frm, to, change_after):
    """DLISFile.write: objects are checked, then the writer is created with the maximum record length *declared in the
    label that is written*, the label is written first, and the records generated for exactly the arguments given
    (input chunk size, data, window) are handed over with the output chunk size."""
    if own_label:
        df = DLISFile(storage_unit_label=StorageUnitLabel('SET', 1, mrl_label), max_record_length=mrl_ctor)
    else:
        df = DLISFile(max_record_length=mrl_label)
    if change_after:
        df.storage_unit_label.max_record_length = mrl_label - 2
    declared = df.storage_unit_label.max_record_length
    lf = df.add_logical_file()
    calls = []
    lf.check_objects = lambda: calls.append('check')
    marker = object()
    data = {'k': 1}

    def gen(chunk_size=None, data=None, **kw):
        calls.append(('gen', chunk_size, data, kw.get('from_idx'), kw.get('to_idx')))
        return marker
    df.generate_logical_records = gen
    RecDLISWriter.log = []
    real_w, real_t = file_mod.DLISWriter, file_mod.timeit
    file_mod.DLISWriter = RecDLISWriter
    file_mod.timeit = lambda f, number=1: (f(), 0.0)[1]
    try:
        df.write('out.dlis', input_chunk_size=in_chunk, output_chunk_size=out_chunk, data=data, from_idx=frm, to_idx=to)
    finally:
        file_mod.DLISWriter, file_mod.timeit = real_w, real_t
    log = RecDLISWriter.log
    if len(log) != 3 or log[0][0] != 'init' or log[1][0] != 'sul' or log[2][0] != 'records':
        return 1
    if log[0][1] != 'out.dlis' or log[0][2] != declared:
        return 2                           # the writer's record length must be the one the label declares
    if log[1][1] is not df.storage_unit_label:
        return 3
    if log[2][1] is not marker or log[2][2] != out_chunk:
        return 4
    if calls != ['check', ('gen', in_chunk, data, frm, to)]:
        return 5
    return 0


def ob_write_wiring(mrl_label: int, mrl_ctor: int, own_label: bool, in_chunk: int, out_chunk: int, frm: int, to: int,
                    change_after: bool) -> int:
    """
    pre: 22 <= mrl_label <= 16384 and mrl_label % 2 == 0 and 20 <= mrl_ctor <= 16384 and mrl_ctor % 2 == 0
    pre: 1 <= in_chunk <= 1000 and 20 <= out_chunk <= 100000 and 0 <= frm < to <= 1000
    post: _ == 0
    """
    return write_wiring_check(mrl_label, mrl_ctor, own_label, in_chunk, out_chunk, frm, to, change_after)


def reach_write_wiring(mrl_label: int, mrl_ctor: int, own_label: bool, in_chunk: int, out_chunk: int, frm: int, to: int,
                       change_after: bool) -> int:
    """
    pre: 22 <= mrl_label <= 16384 and mrl_label % 2 == 0 and 20 <= mrl_ctor <= 16384 and mrl_ctor % 2 == 0
    pre: 1 <= in_chunk <= 1000 and 20 <= out_chunk <= 100000 and 0 <= frm < to <= 1000
    post: _ != 0
    """
    return write_wiring_check(mrl_label, mrl_ctor, own_label, in_chunk, out_chunk, frm, to, change_after)
