"""C13 — frame index metadata: spacing / direction arithmetic on integer indices (value-level numpy stub) and the
assignment logic of FrameItem._setup_frame_params_from_data."""
from vf.harness.common import SHARD_I, SHARD_N, THOROUGH
from vf.harness.objmodel import reset_global_state, untraced, global_config
from vf.stubs import npvalues as npv

import dliswriter.logical_record.eflr_types.frame as frame_mod
from dliswriter.logical_record.eflr_types.frame import FrameItem, FrameSet
from dliswriter.logical_record.eflr_types.channel import ChannelItem, ChannelSet

frame_mod.np = npv

try:
    from crosshair import realize
except ImportError:
    def realize(x):
        return x

INT_DT = ['int8', 'int16', 'int32', 'uint8', 'uint16', 'uint32']
LO = [-128, -32768, -2147483648, 0, 0, 0]
HI = [127, 32767, 2147483647, 255, 65535, 4294967295]


def spacing_check(dti, n, a, b, c, d, tol=False, exact=False):
    npv.TOLERANCE_ORACLE[0] = tol
    vals = [a, b, c, d][:n]
    for v in vals:
        if not (LO[dti] <= v <= HI[dti]):
            return 0
    arr = npv.VArr(vals, npv.IDtype(INT_DT[dti]))
    (spacing, direction) = FrameItem._compute_spacing_and_direction(arr)
    if n == 1:
        # a single row: no spacing (and certainly not NaN), no direction
        return 0 if (spacing is None and direction is None) else 1
    diffs = [vals[i + 1] - vals[i] for i in range(n - 1)]          # true (mathematical) differences
    uniform = True
    for x in diffs:
        if x != diffs[0]:
            uniform = False
    inc = True
    dec = True
    allzero = True
    for x in diffs:
        if x < 0:
            inc = False
        if x > 0:
            dec = False
        if x != 0:
            allzero = False
    if uniform:
        if spacing is None or spacing != diffs[0]:
            return 2                       # uniform differences: SPACING is that signed difference
    # direction: the monotonic sense, if there is one
    want = None
    if not allzero:
        if inc:
            want = True
        elif dec:
            want = False
    if direction is not want:
        return 3
    # non-uniform differences: the documented tolerance is (1 - d/median)**2 < 0.001 for every difference d.  It is
    # evaluated exactly (rationals); within a relative 1e-3 of the threshold nothing is asserted (float rounding)
    if not uniform and exact:
        s = sorted(diffs)
        k = len(s)
        if k % 2:
            num, den = s[k // 2], 1
        else:
            num, den = s[k // 2 - 1] + s[k // 2], 2
        if num == 0:
            return 0 if spacing is None else 4
        anum = num if num >= 0 else -num
        all_near = True
        any_far = False
        for x in diffs:
            g = num - x * den
            if g < 0:
                g = -g
            # |1 - x/median| against sqrt(0.001) = 0.031622...: clearly below 0.031 / clearly above 0.032
            if not (1000 * g < 31 * anum):
                all_near = False
            if 1000 * g > 32 * anum:
                any_far = True
        if any_far and spacing is not None:
            return 5                       # SPACING announced for differences that are not uniform
        if all_near and (spacing is None or not (spacing == npv.MedVal(num, den))):
            return 6                       # near-uniform (within the tolerance): SPACING is the median difference
    return 0


def ob_spacing(dti: int, n: int, a: int, b: int, c: int, tol: bool) -> int:
    """
    tol: the (float) outcome of the near-uniform tolerance test, arbitrary.
    pre: 0 <= dti < 6 and dti % SHARD_N == SHARD_I % 6
    pre: 1 <= n <= 3
    post: _ == 0
    """
    return spacing_check(dti, n, a, b, c, 0, tol)


TOL_N_HI = 4


def spacing_tol_check(dti, n, a, b, c, d, tol):
    npv.EXACT_TOL[0] = True
    try:
        return spacing_check(dti, n, a, b, c, d, tol, exact=True)
    finally:
        npv.EXACT_TOL[0] = False


def ob_spacing_tol(dti: int, n: int, a: int, b: int, c: int, d: int, tol: bool) -> int:
    """
    The near-uniform tolerance, decided in exact (linearised) rational arithmetic: 3..4 rows, all values of the dtype.
    pre: 0 <= dti < 6 and dti % SHARD_N == SHARD_I % 6
    pre: 3 <= n <= TOL_N_HI
    post: _ == 0
    """
    return spacing_tol_check(dti, n, a, b, c, d, tol)


def reach_spacing_tol(dti: int, n: int, a: int, b: int, c: int, d: int, tol: bool) -> int:
    """
    pre: 0 <= dti < 6
    pre: 3 <= n <= 4
    post: _ != 0
    """
    return spacing_tol_check(dti, n, a, b, c, d, tol)


def reach_spacing(dti: int, n: int, a: int, b: int, c: int, tol: bool) -> int:
    """
    pre: 0 <= dti < 6
    pre: 1 <= n <= 3
    post: _ != 0
    """
    return spacing_check(dti, n, a, b, c, 0, tol)


def wit_spacing_unsigned_decreasing(a: int, b: int, c: int) -> bool:
    """
    A decreasing uint8 index with uniform step: spacing is the negative step.
    pre: 0 <= c < b < a <= 255 and a - b == b - c
    post: not _
    """
    arr = npv.VArr([a, b, c], npv.IDtype('uint8'))
    (spacing, direction) = FrameItem._compute_spacing_and_direction(arr)
    return spacing == b - a and direction is False


# ------------------------------------------------------------------------------------- assignment of the metadata

class FakeData:
    """Stands for the SourceDataWrapper in _setup_frame_params_from_data: data[name][:] -> the index array."""

    def __init__(self, arr):
        self.arr = arr

    def __getitem__(self, name):
        return self.arr


def params_check(has_type, u_min, u_max, u_sp, u_dir, uniform, rows, mode, zero=False):
    """Symbolic flags: index type given or not; index_min / index_max / spacing / direction supplied by the user or not;
    data uniform or not; high-compatibility mode.  Supplied values are left unchanged; the others are derived from the
    rows written."""
    with untraced():
        reset_global_state()
        ch = ChannelItem('IDX', ChannelSet(), origin_reference=1)
        ch.units.value = 'm'
        fr = FrameItem('FR', FrameSet(), channels=(ch,), origin_reference=1)
        if has_type:
            fr.index_type.value = 'BOREHOLE-DEPTH'
        UMIN, UMAX, USP = (0.0, 0.0, 0.0) if zero else (1000.5, 2000.5, 77.5)      # a supplied zero is a supplied value
        if u_min:
            fr.index_min.value = UMIN
        if u_max:
            fr.index_max.value = UMAX
        if u_sp:
            fr.spacing.value = USP
        if u_dir:
            fr.direction.value = 'DECREASING'
    vals = [10, 12, 14, 16][:rows] if uniform else [10, 12, 19, 31][:rows]
    arr = npv.VArr(vals, npv.IDtype('int32'))
    really_uniform = uniform or rows <= 2
    global_config.high_compat_mode = mode
    try:
        try:
            fr._setup_frame_params_from_data(FakeData(arr))
        except RuntimeError:
            # in the mode a non-uniform (or single-row) indexed frame is refused
            return 0 if (mode and has_type and (not really_uniform or rows == 1)) else 1
    finally:
        global_config.high_compat_mode = False
    if mode and has_type and (not really_uniform or rows == 1):
        return 2
    if not has_type:
        if fr.index_min.value != (UMIN if u_min else 1) or fr.index_max.value != (UMAX if u_max else rows):
            return 3
        if fr.spacing.value != (USP if u_sp else 1):
            return 4
        if (fr.direction.value is None) != (not u_dir):
            return 5
        return 0
    if fr.index_min.value != (UMIN if u_min else vals[0]) or fr.index_max.value != (UMAX if u_max else vals[rows - 1]):
        return 6
    if u_sp:
        if fr.spacing.value != USP:
            return 7
    elif really_uniform and rows >= 2:
        if fr.spacing.value != 2:
            return 8
    else:
        if fr.spacing.value is not None:
            return 9
    if u_dir:
        if fr.direction.value != 'DECREASING':
            return 10
    elif not really_uniform:
        if fr.direction.value != 'INCREASING':
            return 11
    if fr.index_min.units != 'm' or fr.index_max.units != 'm':
        return 12
    return 0


def ob_params(has_type: bool, u_min: bool, u_max: bool, u_sp: bool, u_dir: bool, uniform: bool, rows: int, mode: bool,
              zero: bool) -> int:
    """
    pre: 1 <= rows <= 4
    post: _ == 0
    """
    return params_check(has_type, u_min, u_max, u_sp, u_dir, uniform, rows, mode, zero)


def reach_params(has_type: bool, u_min: bool, u_max: bool, u_sp: bool, u_dir: bool, uniform: bool, rows: int, mode: bool,
                 zero: bool) -> int:
    """
    pre: 1 <= rows <= 4
    post: _ != 0
    """
    return params_check(has_type, u_min, u_max, u_sp, u_dir, uniform, rows, mode, zero)


CAST_DT = ['int8', 'int16', 'uint8', 'uint16']
CAST_N_HI = 3 if THOROUGH else 2


def cast_index_check(a, b, c, n, cdi):
    """The index channel has a cast dtype: the rows WRITTEN are the cast values (numpy's astype: narrowing wraps), and
    INDEX-MIN / INDEX-MAX (and the spacing test) are about those, not about the source values."""
    import numpy as _np
    with untraced():
        reset_global_state()
        ch = ChannelItem('IDX', ChannelSet(), origin_reference=1, cast_dtype=getattr(_np, CAST_DT[cdi]))
        fr = FrameItem('FR', FrameSet(), channels=(ch,), origin_reference=1)
        fr.index_type.value = 'BOREHOLE-DEPTH'
    vals = [a, b, c][:n]
    arr = npv.VArr(vals, npv.IDtype('int32'))
    fr._setup_frame_params_from_data(FakeData(arr))
    cdt = npv.IDtype(CAST_DT[cdi])
    written = [npv.wrap(v, cdt) for v in vals]
    lo = written[0]
    hi = written[0]
    for v in written:
        if v < lo:
            lo = v
        if v > hi:
            hi = v
    if fr.index_min.value != lo or fr.index_max.value != hi:
        return 1
    return 0


def ob_cast_index(a: int, b: int, c: int, n: int, cdi: int) -> int:
    """
    pre: -2147483648 <= a <= 2147483647 and -2147483648 <= b <= 2147483647 and -2147483648 <= c <= 2147483647
    pre: 1 <= n <= CAST_N_HI and 0 <= cdi < 4 and (cdi * CAST_N_HI + n - 1) % SHARD_N == SHARD_I % (4 * CAST_N_HI)
    post: _ == 0
    """
    return cast_index_check(a, b, c, n, cdi)


def reach_cast_index(a: int, b: int, c: int, n: int, cdi: int) -> int:
    """
    pre: -2147483648 <= a <= 2147483647 and -2147483648 <= b <= 2147483647 and -2147483648 <= c <= 2147483647
    pre: 1 <= n <= CAST_N_HI and 0 <= cdi < 4
    post: _ != 0
    """
    return cast_index_check(a, b, c, n, cdi)


def second_setup_check(has_type, rows1, rows2):
    """Two successive set-ups of one frame with different data: the derived values reflect the second data."""
    with untraced():
        reset_global_state()
        ch = ChannelItem('IDX', ChannelSet(), origin_reference=1)
        fr = FrameItem('FR', FrameSet(), channels=(ch,), origin_reference=1)
        if has_type:
            fr.index_type.value = 'BOREHOLE-DEPTH'
    first = npv.VArr([10, 12, 14, 16][:rows1], npv.IDtype('int32'))
    second = npv.VArr([50, 55, 60, 65][:rows2], npv.IDtype('int32'))
    fr._setup_frame_params_from_data(FakeData(first))
    fr._setup_frame_params_from_data(FakeData(second))
    if has_type:
        if fr.index_min.value != 50 or fr.index_max.value != [50, 55, 60, 65][rows2 - 1] or fr.spacing.value != 5:
            return 1
    else:
        if fr.index_min.value != 1 or fr.index_max.value != rows2:
            return 2
    return 0


def ob_second_setup(rows: int) -> int:
    """
    Outside the region of known finding F9 (derived frame values persist across writes): no index type and the same
    number of rows both times.  kf_second_setup decides the region itself.
    pre: 2 <= rows <= 4
    post: _ == 0
    """
    return second_setup_check(False, rows, rows)


def reach_second_setup(rows: int) -> int:
    """
    pre: 2 <= rows <= 4
    post: _ != 0
    """
    return second_setup_check(False, rows, rows)


def kf_second_setup(has_type: bool, rows1: int, rows2: int) -> int:
    """
    pre: 2 <= rows1 <= 4 and 2 <= rows2 <= 4
    pre: has_type or rows1 != rows2
    post: _ == 0
    """
    return second_setup_check(has_type, rows1, rows2)


def wide_first_channel_check(rows, w, has_type, u_max):
    """The first channel of the frame is 2-D (rows x w): without index type INDEX-MAX is the number of ROWS; with an
    index type the set-up refuses a non-1-D index channel."""
    with untraced():
        reset_global_state()
        ch = ChannelItem('IMG', ChannelSet(), origin_reference=1)
        fr = FrameItem('FR', FrameSet(), channels=(ch,), origin_reference=1)
        if has_type:
            fr.index_type.value = 'BOREHOLE-DEPTH'
        if u_max:
            fr.index_max.value = 77.0
    try:
        fr._setup_frame_params_from_data(FakeData(npv.VArr2D(rows, w)))
    except RuntimeError:
        return 0 if has_type else 1
    if has_type:
        return 2
    if fr.index_min.value != 1 or fr.index_max.value != (77.0 if u_max else rows) or fr.spacing.value != 1:
        return 3
    return 0


def ob_wide_first_channel(rows: int, w: int, has_type: bool, u_max: bool) -> int:
    """
    pre: 1 <= rows <= 1000000 and 2 <= w <= 4096
    post: _ == 0
    """
    return wide_first_channel_check(rows, w, has_type, u_max)


def reach_wide_first_channel(rows: int, w: int, has_type: bool, u_max: bool) -> int:
    """
    pre: 1 <= rows <= 1000000 and 2 <= w <= 4096
    post: _ != 0
    """
    return wide_first_channel_check(rows, w, has_type, u_max)


# --------------------------------------------------------------------- float index (integer-valued or NaN): C13 / C17
# A float64 index whose finite values are integers of magnitude < 2**50: every difference is exact in binary64, so the
# stub's integer arithmetic IS numpy's float arithmetic; each row may instead be NaN (a missing sample), with numpy's
# NaN semantics (comparisons False, arithmetic / median / min / max propagate, unique keeps one NaN).  What is asserted:
# a SPACING is announced only for rows that really are uniformly spaced - never NaN, never for an index with a missing
# sample - and in the high-compatibility mode such an index is refused.

FBOUND = 2 ** 50


def float_index_check(n, a, b, c, d, na, nb, nc, nd, mode, tol):
    npv.TOLERANCE_ORACLE[0] = tol
    npv.EXACT_TOL[0] = True
    try:
        ints = [a, b, c, d][:n]
        flags = [na, nb, nc, nd][:n]
        vals = []
        anynan = False
        for i in range(n):
            if flags[i]:
                vals.append(npv.NAN)
                anynan = True
            else:
                vals.append(ints[i])
        arr = npv.VArr(vals, npv.float64)
        if not anynan:
            # finite data: the same expectations as for integer indices
            r = spacing_check_arr(arr, ints, n)
            if r:
                return r
        else:
            (spacing, direction) = FrameItem._compute_spacing_and_direction(arr)
            if n >= 2 and spacing is not None:
                return 20                   # a SPACING (NaN, or the median of the remaining steps) for an index with a hole
            if n == 1 and (spacing is not None or direction is not None):
                return 21
        if not anynan or n < 2:
            return 0                        # the set-up of finite indices is ob_params' subject
        # through the frame set-up: in the mode an index with a hole is refused
        with untraced():
            reset_global_state()
            ch = ChannelItem('IDX', ChannelSet(), origin_reference=1)
            fr = FrameItem('FR', FrameSet(), channels=(ch,), origin_reference=1)
            fr.index_type.value = 'BOREHOLE-DEPTH'
        global_config.high_compat_mode = mode
        raised = False
        try:
            try:
                fr._setup_frame_params_from_data(FakeData(arr))
            except RuntimeError:
                raised = True
        finally:
            global_config.high_compat_mode = False
        if anynan and n >= 2:
            if mode and not raised:
                return 22                   # written in the mode although the index has a hole
            if not raised and fr.spacing.value is not None:
                return 23
        return 0
    finally:
        npv.EXACT_TOL[0] = False


def spacing_check_arr(arr, vals, n):
    (spacing, direction) = FrameItem._compute_spacing_and_direction(arr)
    if n == 1:
        return 0 if (spacing is None and direction is None) else 1
    diffs = [vals[i + 1] - vals[i] for i in range(n - 1)]
    uniform = True
    inc = True
    dec = True
    allzero = True
    for x in diffs:
        if x != diffs[0]:
            uniform = False
        if x < 0:
            inc = False
        if x > 0:
            dec = False
        if x != 0:
            allzero = False
    if uniform and (spacing is None or spacing != diffs[0]):
        return 2
    want = None
    if not allzero:
        if inc:
            want = True
        elif dec:
            want = False
    if direction is not want:
        return 3
    if not uniform and spacing is not None:
        # announced for non-uniform steps: only legitimate when every step is within the documented tolerance
        s = sorted(diffs)
        k = len(s)
        if k % 2:
            num, den = s[k // 2], 1
        else:
            num, den = s[k // 2 - 1] + s[k // 2], 2
        if num == 0:
            return 4
        anum = num if num >= 0 else -num
        for x in diffs:
            g = num - x * den
            if g < 0:
                g = -g
            if 1000 * g > 32 * anum:
                return 5
    return 0


def ob_float_index(n: int, a: int, b: int, c: int, d: int, na: bool, nb: bool, nc: bool, nd: bool, mode: bool, tol: bool) -> int:
    """
    pre: 1 <= n <= 4 and n % SHARD_N == SHARD_I % 4
    pre: -FBOUND <= a <= FBOUND and -FBOUND <= b <= FBOUND and -FBOUND <= c <= FBOUND and -FBOUND <= d <= FBOUND
    post: _ == 0
    """
    return float_index_check(n, a, b, c, d, na, nb, nc, nd, mode, tol)


def reach_float_index(n: int, a: int, b: int, c: int, d: int, na: bool, nb: bool, nc: bool, nd: bool, mode: bool, tol: bool) -> int:
    """
    pre: 1 <= n <= 4
    pre: -FBOUND <= a <= FBOUND and -FBOUND <= b <= FBOUND and -FBOUND <= c <= FBOUND and -FBOUND <= d <= FBOUND
    post: _ != 0
    """
    return float_index_check(n, a, b, c, d, na, nb, nc, nd, mode, tol)
