"""C12 — fail-closed: obligations that are specific to rejection (the others are shared with C01/C06/C09/C11)."""
from vf.harness.objmodel import new_file, add_origin, reset_global_state, global_config
from vf.stubs.lenstr import LenStr
import struct

from dliswriter.logical_record.core.attribute.attribute import Attribute
from dliswriter.logical_record.eflr_types.comment import CommentItem, CommentSet
from dliswriter.utils.internal.internal_enums import RepresentationCode as RepC


def completeness_check(has_origin, has_channel, has_frame, via_generate):
    """check_objects (and generate_logical_records for the origin) raise iff origin, channels or frames are missing."""
    df, (lf,) = new_file(1)
    if has_origin:
        add_origin(lf, 'O')
    ch = lf.add_channel('C') if has_channel else None
    if has_frame and has_channel:
        lf.add_frame('F', channels=(ch,))
    try:
        if via_generate:
            for idx, f in enumerate(df.logical_files):
                if f.defining_origin is None:
                    raise RuntimeError('no origin')
        lf.check_objects()
    except RuntimeError:
        ok = False
    else:
        ok = True
    want = has_origin and has_channel and has_frame
    return 0 if ok == want else 1


def ob_completeness(has_origin: bool, has_channel: bool, has_frame: bool, via_generate: bool) -> int:
    """
    post: _ == 0
    """
    return completeness_check(has_origin, has_channel, has_frame, via_generate)


def reach_completeness(has_origin: bool, has_channel: bool, has_frame: bool, via_generate: bool) -> int:
    """
    post: _ != 0
    """
    return completeness_check(has_origin, has_channel, has_frame, via_generate)


def long_names_check(n_name, n_units, n_label_value, n_set_name):
    """Names, units, IDENT values and set names longer than their one-byte length prefix allows make the encoding
    raise; nothing longer than 255 characters is ever emitted with a wrapped or multi-byte prefix."""
    reset_global_state()
    s = CommentSet(set_name=LenStr(n_set_name, 'sn') if n_set_name > 0 else None)
    it = CommentItem(LenStr(n_name, 'nm'), s, origin_reference=1)
    a = Attribute('x', representation_code=RepC.IDENT)
    a._value = LenStr(n_label_value, 'val')
    a._units = LenStr(n_units, 'un') if n_units > 0 else None
    too_long = n_name > 255 or n_units > 255 or n_label_value > 255 or n_set_name > 255
    try:
        s._make_body_bytes()
        a.get_as_bytes()
    except struct.error:
        return 0 if too_long else 1
    return 2 if too_long else 0


def ob_long_names(n_name: int, n_units: int, n_label_value: int, n_set_name: int) -> int:
    """
    pre: 1 <= n_name <= 70000 and 0 <= n_units <= 70000 and 0 <= n_label_value <= 70000 and 0 <= n_set_name <= 70000
    post: _ == 0
    """
    return long_names_check(n_name, n_units, n_label_value, n_set_name)


def reach_long_names(n_name: int, n_units: int, n_label_value: int, n_set_name: int) -> int:
    """
    pre: 1 <= n_name <= 70000 and 0 <= n_units <= 70000 and 0 <= n_label_value <= 70000 and 0 <= n_set_name <= 70000
    post: _ != 0
    """
    return long_names_check(n_name, n_units, n_label_value, n_set_name)
