"""C14 / C20 / C18 — state that outlives one call: caches, registries, derived attributes, logical-file isolation."""
from vf.harness.common import SHARD_I, SHARD_N, flat, lits, RepC, Rope
from vf.harness.objmodel import (new_file, add_origin, reset_global_state, untraced, eflr_types, T0, global_config,
                                 set_kind)
from vf.harness.items import ITEM_SETS, N_SETS, make_item, ACTIVE_SITES, N_SITES, kind_of, py_values
from vf.harness.c06 import uvari_expect
from vf.stubs.lenstr import LenStr

from dliswriter.utils.internal import struct_writer as sw
from dliswriter.utils.internal.struct_writer import write_struct
from dliswriter.logical_record.core.attribute.attribute import Attribute
from dliswriter.logical_record.eflr_types.zone import ZoneItem, ZoneSet
from dliswriter.logical_record.eflr_types.parameter import ParameterItem, ParameterSet
from dliswriter.logical_record.eflr_types.comment import CommentItem, CommentSet

REJECT = (ValueError, RuntimeError, TypeError, AttributeError)

import sys
from datetime import datetime as _datetime

# ---- memoisation guards (O14.1a).  CrossHair bypasses functools.lru_cache (it calls __wrapped__), so a stale memo
# can never show up as a wrong byte under symbolic execution.  What makes a memo on (args) transparent is decided
# instead as two obligations: (a) only immutable values ever reach a memoised function (guards below record every
# call whose argument is a mutable object, e.g. an EFLRItem whose name can change later), (b) arguments that are equal
# as cache keys give equal uncached results (ob_cache_key).
IMMUTABLE = (int, float, str, bool, bytes, type(None), _datetime, tuple)
GUARD_VIOLATIONS = []
MEMOISED = []           # (module name, global name, lru object)


def _guard(mod_name, name, lru):
    inner = lru.__wrapped__

    def guarded(*a, **k):
        for v in list(a) + list(k.values()):
            if not isinstance(v, IMMUTABLE):
                GUARD_VIOLATIONS.append((name, type(v).__name__))
        return inner(*a, **k)
    guarded.__wrapped__ = inner
    guarded.cache_parameters = lru.cache_parameters
    guarded.cache_clear = lambda: None
    guarded._vf_guard = True
    return guarded


def install_cache_guards():
    for mn, m in list(sys.modules.items()):
        if not (mn == 'dliswriter' or mn.startswith('dliswriter.')) or m is None:
            continue
        for gn, obj in list(vars(m).items()):
            if hasattr(obj, 'cache_parameters') and hasattr(obj, '__wrapped__') and not getattr(obj, '_vf_guard', False):
                if not any(x[2] is obj for x in MEMOISED):
                    MEMOISED.append((mn, gn, obj))
                setattr(m, gn, _guard(mn, gn, obj))


install_cache_guards()


def tok(x):
    return flat(x)


# ------------------------------------------------------------------------------------------ identity caches (O14.3)

def rename_check(new_origin, new_copy, rename, n1, n2, via_ref):
    """Encode an item (header and as a reference), change its name / origin, encode again: the second encoding must be
    that of a fresh object with the new identity (no cached bytes of the old one); and no mutable object reaches a
    memoised function on the way."""
    reset_global_state()
    del GUARD_VIOLATIONS[:]
    s = ZoneSet()
    z = ZoneItem(LenStr(n1, 'old'), s, origin_reference=1)
    holder = Attribute('ref', representation_code=RepC.OBJREF if via_ref else RepC.OBNAME)
    holder._value = z
    first_hdr = tok(z.make_item_body_bytes())
    first_ref = tok(holder.get_as_bytes())
    # mutate
    if rename:
        z.name = LenStr(n2, 'new')
    z.origin_reference = new_origin
    second_hdr = tok(z.make_item_body_bytes())
    second_ref = tok(holder.get_as_bytes())
    want_name = ('src', 'new', 0, n2) if rename else ('src', 'old', 0, n1)
    want = [('b', v) for v in uvari_expect(new_origin) + [0, n2 if rename else n1]] + [want_name]
    # header: 'p' + OBNAME + 4 absent attributes
    if second_hdr[0] != ('b', 112) or second_hdr[1:1 + len(want)] != want:
        return 1
    k = 2 if not via_ref else 2 + 5                   # descriptor, code [, IDENT 'ZONE']
    if second_ref[k:k + len(want)] != want or len(second_ref) != k + len(want):
        return 2
    if GUARD_VIOLATIONS:
        return 3                          # an item object was used as a memo key
    return 0


def ob_rename(new_origin: int, rename: bool, n1: int, n2: int, via_ref: bool) -> int:
    """
    pre: 0 <= new_origin < 1073741824
    pre: 1 <= n1 <= 255 and 1 <= n2 <= 255
    post: _ == 0
    """
    return rename_check(new_origin, 0, rename, n1, n2, via_ref)


def reach_rename(new_origin: int, rename: bool, n1: int, n2: int, via_ref: bool) -> int:
    """
    pre: 0 <= new_origin < 1073741824
    pre: 1 <= n1 <= 255 and 1 <= n2 <= 255
    post: _ != 0
    """
    return rename_check(new_origin, 0, rename, n1, n2, via_ref)


# -------------------------------------------------------------------------------------- lru key 2-safety (O14.1)

VALS = [1, 1.0, True, 0, 0.0, False, 2, 2.0, -1, -1.0, '1', '1.0', 'True']
# tuples (round 6): a memo keyed on a tuple of values sees (10, 20) and (10.0, 20.0) as one key - typed=True looks at the
# type of the argument (tuple), not inside it.  Offered to single-argument memos only.
VALS = VALS + [(1,), (1.0,), (True,), (10, 20), (10.0, 20.0), (10, 20.0), (0,), (0.0,), (-0.0,), (False,), ('1',), (1, 2, 3), (1.0, 2.0, 3.0)]
N_VALS = len(VALS)
CODES = [RepC.IDENT, RepC.ASCII, RepC.FDOUBL, RepC.SLONG, RepC.USHORT, RepC.UVARI, RepC.STATUS]
N_CODES = len(CODES)


def _keys_equal(a, b, typed):
    if not (a == b and hash(a) == hash(b)):
        return False
    if typed and type(a) is not type(b):
        return False
    return True


def cache_key_check(mi, ci, i, j):
    """For every memoised function of the package (found by introspection) taking (code, value): two values that are
    equal as cache keys must give equal uncached results - otherwise the bytes written for the second depend on
    whether the first was written earlier in the process."""
    if mi >= len(MEMOISED):
        return 0
    (mn, gn, lru) = MEMOISED[mi]
    typed = lru.cache_parameters()['typed']
    a, b = VALS[i], VALS[j]
    if i == j or not _keys_equal(a, b, typed):
        return 0
    f = lru.__wrapped__
    import inspect
    npar = len(inspect.signature(f).parameters)
    if npar == 1 and not ((type(a) is int and type(b) is int) or (type(a) is tuple and type(b) is tuple)):
        return 0        # single-argument memos (segment attribute byte) only ever receive integer flag sums - or tuples
    if npar != 1 and (type(a) is tuple or type(b) is tuple):
        return 0        # (code, value) memos receive scalars: lists are flattened before they are encoded

    def run(v):
        try:
            r = f(CODES[ci], v) if npar == 2 else f(v)
        except Exception as e:
            return ('exc', type(e).__name__)
        if isinstance(r, (bytes, bytearray, Rope)):
            return ('ok', lits(r))
        return ('ok', repr(r))
    if run(a) != run(b):
        return 1
    return 0


# the (memo, code, value pair) combinations whose cache keys collide, computed from the memos' own parameters
COMBOS = []
for _mi, (_mn, _gn, _lru) in enumerate(MEMOISED):
    _typed = _lru.cache_parameters()['typed']
    for _ci in range(N_CODES):
        for _i in range(N_VALS):
            for _j in range(N_VALS):
                if _i != _j and _keys_equal(VALS[_i], VALS[_j], _typed):
                    COMBOS.append((_mi, _ci, _i, _j))
N_COMBOS = max(len(COMBOS), 1)


def cache_combo_check(k):
    if not COMBOS:
        return 0                          # no two distinct values of the domain collide as keys of any memo
    (mi, ci, i, j) = COMBOS[k]
    return cache_key_check(mi, ci, i, j)


def ob_cache_key(k: int) -> int:
    """
    pre: 0 <= k < N_COMBOS and k % SHARD_N == SHARD_I
    post: _ == 0
    """
    return cache_combo_check(k)


def reach_cache_key(k: int) -> int:
    """
    pre: 0 <= k < N_COMBOS
    post: _ != 0
    """
    return cache_combo_check(k)


# ----------------------------------------------------------------- public entry with the real memos (O14.1c)
# ob_cache_key reasons about the keys of each memoised function; this obligation looks at the public entry point with
# the real (C-level) lru caches in place: encoding b after a value a that is EQUAL to it (==), in any type combination,
# gives the bytes a process that never saw a would give.  Values are a finite list; the real lru needs concrete values.
HVALS = [0.0, -0.0, 0, 1, 1.0, True, False, -1, -1.0, 2, 2.0, '0', '-0.0', '0.0', '1', '1.0', float('inf'), -float('inf'),
         255, 255.0, 128, 128.0]
# naive date-times that differ only in 'fold' compare (and hash) equal but denote different instants where the local
# clock is set back (F27); the check runs under a POSIX TZ rule with such a transition (no tz database needed)
DST_TZ = 'CET-1CEST,M3.5.0,M10.5.0/3'
HVALS = HVALS + [_datetime(2023, 10, 29, 2, 30, fold=0), _datetime(2023, 10, 29, 2, 30, fold=1),
                 _datetime(2023, 6, 1, 12, 0, fold=0), _datetime(2023, 6, 1, 12, 0, fold=1)]
HPAIRS = [(i, j) for i in range(len(HVALS)) for j in range(len(HVALS)) if i != j and HVALS[i] == HVALS[j]]
N_HPAIRS = len(HPAIRS)
HCODES = CODES + [RepC.FSINGL, RepC.UNORM, RepC.SNORM, RepC.DTIME]
N_HCODES = len(HCODES)


def _real_memos(on):
    for (mn, gn, lru) in MEMOISED:
        m = sys.modules[mn]
        if on:
            setattr(m, gn, lru)
        else:
            setattr(m, gn, _guard(mn, gn, lru))


def _clear_real():
    for (_mn, _gn, lru) in MEMOISED:
        lru.cache_clear()


def entry_history_check(ci, k):
    (i, j) = HPAIRS[k]
    code = HCODES[ci]
    a, b = HVALS[i], HVALS[j]
    with untraced():
        import os as _os
        import time as _time
        _tz = _os.environ.get('TZ')
        _os.environ['TZ'] = DST_TZ
        _time.tzset()
        _real_memos(True)
        try:
            def run(v):
                try:
                    return ('ok', lits(sw.write_struct(code, v)))
                except Exception as e:
                    return ('exc', type(e).__name__)
            _clear_real()
            run(a)
            after = run(b)
            _clear_real()
            fresh = run(b)
            _clear_real()
        finally:
            _real_memos(False)
            if _tz is None:
                del _os.environ['TZ']
            else:
                _os.environ['TZ'] = _tz
            _time.tzset()
    return 0 if after == fresh else 1


def ob_entry_history(ci: int, k: int) -> int:
    """
    pre: 0 <= ci < N_HCODES and 0 <= k < N_HPAIRS
    post: _ == 0
    """
    return entry_history_check(ci, k)


def reach_entry_history(ci: int, k: int) -> int:
    """
    pre: 0 <= ci < N_HCODES and 0 <= k < N_HPAIRS
    post: _ != 0
    """
    return entry_history_check(ci, k)


# -------------------------------------------------------------------------------- encode-step idempotence (O14.9)

def idempotent_check(si, mult, x, s, arm):
    """make_item_body_bytes twice on an unchanged object: same bytes, no exception the second time (the write-time
    defaults must be a fixed point of their own checks)."""
    reset_global_state()
    (ci, an) = ACTIVE_SITES[si]
    S = ITEM_SETS[ci]
    with untraced():
        it = make_item(S, 'OBJ', origin=1)
        a = getattr(it, an)
        kind = kind_of(a)
    pv = py_values(a, kind, mult, x, s, arm)
    if pv is None:
        return 0
    try:
        a.value = pv[0]
        first = tok(it.make_item_body_bytes())
    except REJECT:
        return 0
    try:
        second = tok(it.make_item_body_bytes())
    except REJECT:
        return 1
    if first != second:
        return 2
    return 0


def ob_idempotent(si: int, mult: int, x: int, s: str, arm: bool) -> int:
    """
    pre: 0 <= si < N_SITES and si % SHARD_N == SHARD_I
    pre: 0 <= mult <= 4
    pre: -3 <= x <= 3 and len(s) <= 1 and s.isascii()
    post: _ == 0
    """
    return idempotent_check(si, mult, x, s, arm)


def reach_idempotent(si: int, mult: int, x: int, s: str, arm: bool) -> int:
    """
    pre: 0 <= si < N_SITES and si % SHARD_N == SHARD_I
    pre: 0 <= mult <= 4
    pre: -3 <= x <= 3 and len(s) <= 1 and s.isascii()
    post: _ != 0
    """
    return idempotent_check(si, mult, x, s, arm)


def reassign_check(si, mult, mult2, x, s, arm):
    """Assign a value, encode (what a first write does), assign another value - of the other kind where the attribute
    takes several (text / reference, date / number, integer / float) or of another multiplicity - and encode again: the
    bytes are those of a fresh object that only ever had the second value (no representation code, count or value
    remembered from the first encoding)."""
    reset_global_state()
    (ci, an) = ACTIVE_SITES[si]
    S = ITEM_SETS[ci]
    with untraced():
        it = make_item(S, 'OBJ', origin=1)
        it2 = make_item(S, 'OBJ', origin=1)
        a = getattr(it, an)
        a2 = getattr(it2, an)
        kind = kind_of(a)
    pv1 = py_values(a, kind, mult, x, s, arm)
    pv2 = py_values(a, kind, mult2, x, s, not arm)
    if pv1 is None or pv2 is None:
        return 0
    try:
        a.value = pv1[0]
        it.make_item_body_bytes()
    except REJECT:
        return 0
    try:
        a2.value = pv2[0]
        fresh = tok(it2.make_item_body_bytes())
    except REJECT:
        return 0                          # the second value alone is not encodable: not this obligation's subject
    try:
        a.value = pv2[0]
        second = tok(it.make_item_body_bytes())
    except REJECT:
        return 1                          # encodable on a fresh object, refused after the first encoding
    if second != fresh:
        return 2
    return 0


def ob_reassign(si: int, mult: int, mult2: int, x: int, s: str, arm: bool) -> int:
    """
    pre: 0 <= si < N_SITES and si % SHARD_N == SHARD_I
    pre: 1 <= mult <= 2 and 1 <= mult2 <= 2
    pre: -3 <= x <= 3 and len(s) <= 1 and s.isascii()
    post: _ == 0
    """
    return reassign_check(si, mult, mult2, x, s, arm)


def reach_reassign(si: int, mult: int, mult2: int, x: int, s: str, arm: bool) -> int:
    """
    pre: 0 <= si < N_SITES and si % SHARD_N == SHARD_I
    pre: 1 <= mult <= 2 and 1 <= mult2 <= 2
    pre: -3 <= x <= 3 and len(s) <= 1 and s.isascii()
    post: _ != 0
    """
    return reassign_check(si, mult, mult2, x, s, arm)


def wit_idempotent_param_values(x: int) -> bool:
    """
    A parameter with flat values and no dimension can be encoded twice.
    pre: -5 <= x <= 5
    post: not _
    """
    reset_global_state()
    p = ParameterItem('P', ParameterSet(), origin_reference=1, values=[x])
    a = tok(p.make_item_body_bytes())
    b = tok(p.make_item_body_bytes())
    return a == b


# ------------------------------------------------------------------------------ rejected calls leave no trace (O20.1)

def rejected_check(ci, kind, named_after):
    """A constructor call that raises leaves the set as it was: same members, and a same-named object created afterwards
    gets the copy number it would have had without the rejected call."""
    reset_global_state()
    S = ITEM_SETS[ci]
    s = S()
    with untraced():
        first = make_item(S, 'X', parent=s, origin=1)
    before = s.get_all_eflr_items()
    try:
        if kind == 0:
            make_item(S, 'X', parent=s, origin=1, no_such_attribute_zz=1)
        elif kind == 1:
            make_item(S, 'X', parent=s, origin='not-an-int')
        elif kind == 2:
            an = list(first.attributes.keys())[0]
            make_item(S, 'X', parent=s, origin=1, **{an: {'no_such_part': 1}})
        else:
            make_item(S, 12345, parent=s, origin=1)
    except REJECT:
        pass
    else:
        return 0                          # not rejected: nothing to check
    after = s.get_all_eflr_items()
    if len(after) != len(before):
        return 1
    for k in range(len(before)):
        if after[k] is not before[k]:
            return 2
    with untraced():
        later = make_item(S, 'X' if named_after else 'Y', parent=s, origin=1)
    if later.copy_number != (1 if named_after else 0):
        return 3
    return 0


def ob_rejected(ci: int, kind: int, named_after: bool) -> int:
    """
    pre: 0 <= ci < N_SETS and 0 <= kind <= 3
    pre: ci % SHARD_N == SHARD_I
    post: _ == 0
    """
    return rejected_check(ci, kind, named_after)


def reach_rejected(ci: int, kind: int, named_after: bool) -> int:
    """
    pre: 0 <= ci < N_SETS and 0 <= kind <= 3
    pre: ci % SHARD_N == SHARD_I
    post: _ != 0
    """
    return rejected_check(ci, kind, named_after)


def rejected_api_check(which):
    """Through LogicalFile.add_*: an invalid enumeration value, an invalid reference, an invalid cast dtype."""
    df, (lf,) = new_file(1)
    add_origin(lf, 'O')
    cls = [eflr_types.ZoneSet, eflr_types.ParameterSet, eflr_types.ChannelSet, eflr_types.ChannelSet,
           eflr_types.ChannelSet, eflr_types.ChannelSet, eflr_types.ChannelSet, eflr_types.ChannelSet,
           eflr_types.ChannelSet, eflr_types.ChannelSet, eflr_types.ChannelSet][which]
    import numpy as _np
    arr = _np.arange(3, dtype=_np.float64)      # valid data accompanying an invalid argument (which >= 7)
    try:
        if which == 0:
            lf.add_zone('Z', domain='NOT-A-DOMAIN')
        elif which == 1:
            lf.add_parameter('Z', zones=['not a zone'])
        elif which == 2:
            lf.add_channel('Z', cast_dtype='not a dtype')
        elif which == 3:
            lf.add_channel('Z', data='not an array')
        elif which == 4:
            lf.add_channel('Z', cast_dtype=0)              # invalid and falsy
        elif which == 5:
            lf.add_channel('Z', cast_dtype='')
        elif which == 6:
            lf.add_channel('Z', cast_dtype=False)
        elif which == 7:
            lf.add_channel('Z', data=arr, cast_dtype='not a dtype')
        elif which == 8:
            lf.add_channel('Z', data=arr, properties=['NOT-A-PROPERTY'])
        elif which == 9:
            lf.add_channel('Z', data=arr, axis='not an axis')
        else:
            lf.add_channel('Z', data=arr, long_name=5)
    except REJECT:
        pass
    else:
        return 9
    if len(list(lf._eflr_sets.get_all_items_for_set_type(cls))) != 0:
        return 1
    if len(lf._data_dict) != 0:
        return 2
    if which >= 2:
        c = lf.add_channel('Z')
        if c.copy_number != 0 or c.dataset_name != 'Z':
            return 3
    for r in df.generator([[]]):
        if getattr(r, 'set_type', None) == cls.set_type and r.n_items and which < 2:
            return 4
        if isinstance(getattr(r, 'set_type', None), str) and r.n_items == 0 and len(r._make_body_bytes()) != 0:
            return 5                       # the empty set left by the rejected call would be written
    return 0


def ob_rejected_api(which: int) -> int:
    """
    pre: 0 <= which <= 10
    post: _ == 0
    """
    return rejected_api_check(which)


def reach_rejected_api(which: int) -> int:
    """
    pre: 0 <= which <= 10
    post: _ != 0
    """
    return rejected_api_check(which)


# -------------------------------------------------------------------------------------- logical-file isolation (O18.2)

NAMES3 = [None, 'A', 'B']


def isolation_check(n1, n2, order, explicit2, osn=('S1', 'S2'), csn=('S1', 'S2'), same_id=False):
    """Two logical files; a zone is added to each in set names n1, n2 (None/'A'/'B'); origins and zones are added in a
    symbolic interleaving.  Either the specification is refused, or every set yielded for file i holds only objects
    added through file i and every object's origin is an origin of its own file."""
    df, (lf1, lf2) = new_file(2, same_id)
    made = {}

    def o1():
        made['o1'] = add_origin(lf1, 'O1', set_name=osn[0])

    def o2():
        made['o2'] = add_origin(lf2, 'O2', ref=77 if explicit2 else None, set_name=osn[1])

    def z1():
        made['z1'] = lf1.add_zone('Z1', set_name=NAMES3[n1])

    def z2():
        made['z2'] = lf2.add_zone('Z2', set_name=NAMES3[n2])

    seqs = [[o1, o2, z1, z2], [o1, z1, o2, z2], [z2, o1, o2, z1], [z1, z2, o1, o2], [o2, z2, o1, z1], [z2, z1, o2, o1]]
    try:
        for f in seqs[order]:
            f()
        for (lf, sn) in ((lf1, csn[0]), (lf2, csn[1])):
            lf.add_frame('F', channels=(lf.add_channel('C', set_name=sn),), set_name=sn)
            lf.check_objects()
        recs = list(df.generator([[], []]))
        for r in recs:
            if set_kind(r) == 'FILE-HEADER':
                r._make_body_bytes()       # a header without an origin reference is refused when it is encoded
    except REJECT:
        return 0
    # split the record stream by logical file
    cur = -1
    per = [[], []]
    for r in recs:
        if set_kind(r) == 'FILE-HEADER':
            cur = cur + 1
            if cur > 1:
                return 1
            if r is not [lf1, lf2][cur].file_header_item.parent:
                return 2                   # creation order, each opening with its own header
        else:
            per[cur].append(r)
    mine = [{'O1', 'Z1', 'C', 'F'}, {'O2', 'Z2', 'C', 'F'}]
    own = [[made['o1'], made['z1']], [made['o2'], made['z2']]]
    for i in range(2):
        orefs = [it.origin_reference for r in per[i] if r.set_type == 'ORIGIN' for it in r.get_all_eflr_items()]
        for r in per[i]:
            for it in r.get_all_eflr_items():
                if it.name not in mine[i]:
                    return 3
                if it.name in ('O1', 'O2', 'Z1', 'Z2') and it not in own[i]:
                    return 3
                if it.origin_reference not in orefs:
                    return 4               # origin of another logical file (or none)
        if per[i][0].set_type != 'ORIGIN' or per[i][0].get_all_eflr_items()[0] is not own[i][0]:
            return 5
    return 0


def ob_isolation(n1: int, n2: int, order: int, explicit2: bool) -> int:
    """
    Origin / channel / frame sets are named per file ('S1', 'S2'); the zone sets take symbolic names.  Known finding F12
    (the same set class and name used in two logical files gives ONE shared set object) is excluded by n1 != n2 and
    decided by kf_isolation_shared.
    pre: 0 <= n1 <= 2 and 0 <= n2 <= 2 and 0 <= order < 6
    pre: n1 != n2
    post: _ == 0
    """
    return isolation_check(n1, n2, order, explicit2)


def reach_isolation(n1: int, n2: int, order: int, explicit2: bool) -> int:
    """
    pre: 0 <= n1 <= 2 and 0 <= n2 <= 2 and 0 <= order < 6
    pre: n1 != n2
    post: _ != 0
    """
    return isolation_check(n1, n2, order, explicit2)


def ob_isolation_shared_origin(n1: int, n2: int, order: int, explicit2: bool, named_o: bool, shared_c: bool, same_id: bool) -> int:
    """
    Both logical files put their origin into the SAME (default or named) ORIGIN set name - the registry hands both the
    same set object.  The library refuses such a specification when it is checked / generated; it must never emit
    one file's origin, header reference or objects inside the other (zone set names symbolic, channel / frame sets
    per file or shared as well; header identifiers different or equal - equal ones pass the FILE-ID check).
    pre: 0 <= n1 <= 2 and 0 <= n2 <= 2 and 0 <= order < 6 and order % SHARD_N == SHARD_I % 6
    post: _ == 0
    """
    osn = ('S', 'S') if named_o else (None, None)
    csn = (None, None) if shared_c else ('S1', 'S2')
    return isolation_check(n1, n2, order, explicit2, osn, csn, same_id)


def kf_isolation_shared(n: int, order: int) -> int:
    """
    pre: 0 <= n <= 2 and 0 <= order < 6
    post: _ == 0
    """
    return isolation_check(n, n, order, False)


# --------------------------------------------------------------- record order after a rejected call (O20.1, order)

def rejected_order_check(first_use, named):
    """A rejected add_zone followed by valid calls: the sets are emitted in the same order as for the history without
    the rejected call."""
    def build(with_rejected):
        df, (lf,) = new_file(1)
        add_origin(lf, 'O')
        sn = 'ZS' if named else None
        if not first_use:
            lf.add_zone('Z0', set_name=sn)
        if with_rejected:
            try:
                lf.add_zone('ZBAD', domain='NOT-A-DOMAIN', set_name=sn)
            except REJECT:
                pass
        c = lf.add_channel('C')
        lf.add_frame('F', channels=(c,))
        lf.add_zone('Z1', set_name=sn)
        return [(r.set_type, r.set_name, [it.name for it in r.get_all_eflr_items()]) for r in df.generator([[]])
                if isinstance(getattr(r, 'set_type', None), str) and r.n_items > 0]
    return 0 if build(True) == build(False) else 1


def ob_rejected_order(named: bool) -> int:
    """
    The set the rejected call addressed already exists (known finding F21 - the rejected call is the FIRST use of its
    set - is decided by kf_rejected_order).
    post: _ == 0
    """
    return rejected_order_check(False, named)


def reach_rejected_order(named: bool) -> int:
    """
    post: _ != 0
    """
    return rejected_order_check(False, named)


def kf_rejected_order(named: bool) -> int:
    """
    post: _ == 0
    """
    return rejected_order_check(True, named)
