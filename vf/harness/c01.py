"""C01/C02/C15 — segment contract, visible-record wrapper, record-length check, storage unit label, glue.

Every function here runs the *real* dliswriter code (loaded from /repo/src by vf.loader); only struct.Struct objects,
byte contents (Rope) and the file (MemWriter) are stubbed (DESIGN 2.3).
"""
from vf.harness.common import THOROUGH, Rope, flat, lits, RepC, pad_info

from dliswriter.logical_record.core.logical_record.logical_record_bytes import LogicalRecordBytes
from dliswriter.logical_record.misc.storage_unit_label import StorageUnitLabel
from dliswriter.file import writer as writer_mod
from dliswriter.file.writer import DLISWriter, BufferedOutput, ByteWriter
from vf.stubs.memio import MemWriter, RopeArray, install_buffer_stub
from vf.stubs.lenstr import LenStr

SEG_K = 6 if THOROUGH else 3          # body length explored up to SEG_K*cap+30
CAP_LO = 12                           # vrl - 8 for vrl = 20
CAP_HI = 16376                        # vrl - 8 for vrl = 16384


# --------------------------------------------------------------------------------------------- segment contract

def seg_check(L, cap, is_eflr, t, segs):
    """RP66 V1 rules for the segments of one logical record of body length L (independent of dliswriter).

    Returns 0 if all rules hold, otherwise a positive rule number.
    Rules: 1 at least one segment; 2 len == announced size; 3 size even, >= 16, <= cap + 4; 4 header length field;
    5 attribute byte = 128*eflr + 64*(not first) + 32*(not last) + pad flag, bits 4..1 (encryption, encryption packet,
    checksum, trailing length) clear; 6 type byte; 7 body is one contiguous source range starting where the previous
    one ended; 8 pad flag <=> pad bytes present, last pad byte = number of pad bytes, size = 4 + body + pad;
    9 body non-empty; 10 ranges cover [0, L).
    """
    n = len(segs)
    if n == 0:
        return 1
    pos = 0
    i = 0
    for (sb, sz) in segs:
        if len(sb) != sz:
            return 2
        if sz % 2 != 0 or sz < 16 or sz > cap + 4:
            return 3
        f = flat(sb)
        if len(f) < 5:
            return 7
        if f[0][0] != 'b' or f[1][0] != 'b' or f[2][0] != 'b' or f[3][0] != 'b':
            return 4
        if f[0][1] * 256 + f[1][1] != sz:
            return 4
        a = f[2][1]
        pad = a % 2
        want = 0
        if is_eflr:
            want = want + 128
        if i > 0:
            want = want + 64
        if i < n - 1:
            want = want + 32
        if a - pad != want:
            return 5
        if f[3][1] != t:
            return 6
        if f[4][0] != 'src' or f[4][1] != 'body' or f[4][2] != pos:
            return 7
        blen = f[4][3] - f[4][2]
        if blen < 1:
            return 9
        (npad, lastpad) = pad_info(f[5:])
        if npad < 0:
            return 7
        if pad == 1:
            if npad < 1:
                return 8
            if lastpad != npad:
                return 8
        else:
            if npad != 0:
                return 8
        if sz != 4 + blen + npad:
            return 8
        pos = f[4][3]
        i = i + 1
    if pos != L:
        return 10
    return 0


def run_segments(L, cap, is_eflr, t):
    lrb = LogicalRecordBytes(Rope.source('body', L), Rope.lit([t]), is_eflr)
    return list(lrb.make_segments(cap))


def ob_seg_contract(L: int, cap: int, is_eflr: bool, t: int) -> int:
    """
    pre: 1 <= L <= SEG_K * cap + 30
    pre: CAP_LO <= cap <= CAP_HI and cap % 2 == 0
    pre: 0 <= t <= 255
    raises: ValueError
    post: _ == 0
    """
    return seg_check(L, cap, is_eflr, t, run_segments(L, cap, is_eflr, t))


def reach_seg_contract(L: int, cap: int, is_eflr: bool, t: int) -> int:
    """
    pre: 1 <= L <= SEG_K * cap + 30
    pre: CAP_LO <= cap <= CAP_HI and cap % 2 == 0
    pre: 0 <= t <= 255
    raises: ValueError
    post: _ != 0
    """
    return seg_check(L, cap, is_eflr, t, run_segments(L, cap, is_eflr, t))


def wit_seg_three_shortened_padded(L: int, cap: int) -> bool:
    """
    Targeted witness: >= 3 segments, the last-but-one shortened (remainder 1..11) and some segment padded.
    pre: 2 * cap < L <= 3 * cap
    pre: 24 <= cap <= CAP_HI and cap % 2 == 0
    pre: 1 <= L - 2 * cap <= 11 and L % 2 == 1
    post: not _
    """
    segs = run_segments(L, cap, False, 0)
    return len(segs) == 3 and seg_check(L, cap, False, 0, segs) == 0


# ----------------------------------------------------------------------------------------- C15: no exception

def ob_seg_writable(L: int, cap: int, is_eflr: bool) -> int:
    """
    C15: every body length >= 1 and every capacity the writer can pass (vrl - 8, vrl even in [20, 16384]) is
    segmented without an exception (and well-formed).
    pre: 1 <= L <= SEG_K * cap + 30
    pre: CAP_LO <= cap <= CAP_HI and cap % 2 == 0
    post: _ == 0
    """
    return seg_check(L, cap, is_eflr, 0, run_segments(L, cap, is_eflr, 0))


def reach_seg_writable(L: int, cap: int, is_eflr: bool) -> int:
    """
    pre: 1 <= L <= SEG_K * cap + 30
    pre: CAP_LO <= cap <= CAP_HI and cap % 2 == 0
    post: _ != 0
    """
    return seg_check(L, cap, is_eflr, 0, run_segments(L, cap, is_eflr, 0))


def wit_seg_short_body(L: int, cap: int) -> bool:
    """
    Targeted witness: a body shorter than 12 bytes is written as one flagged-padded 16-byte segment.
    pre: 1 <= L <= 11
    pre: CAP_LO <= cap <= CAP_HI and cap % 2 == 0
    post: not _
    """
    segs = run_segments(L, cap, False, 0)
    return len(segs) == 1 and segs[0][1] == 16


def wit_seg_small_cap(L: int, cap: int) -> bool:
    """
    Targeted witness: capacities 12..22 (record lengths 20..30) with a multi-segment record.
    pre: cap < L <= 3 * cap
    pre: CAP_LO <= cap <= 22 and cap % 2 == 0
    post: not _
    """
    segs = run_segments(L, cap, False, 0)
    return len(segs) >= 2 and seg_check(L, cap, False, 0, segs) == 0


# ------------------------------------------------------------------------------------ visible-record wrapper

def _mk_writer(vrl):
    w = DLISWriter.__new__(DLISWriter)
    w._byte_writer = None
    w._visible_record_length = vrl
    w._fmt_version = RepC.USHORT.convert(255) + RepC.USHORT.convert(1)
    w._sul_written = True
    return w


def vr_check(vrl, size, explicit):
    w = _mk_writer(vrl)
    body = Rope.source('seg', size)
    try:
        if explicit:
            vr = w._make_visible_record(body, size)
        else:
            vr = w._make_visible_record(body)
    except ValueError:
        if size + 4 > vrl:
            return 0
        return 1
    if size + 4 > vrl:
        return 2
    f = flat(vr)
    if len(vr) != size + 4:
        return 3
    if len(f) != 5:
        return 4
    for k in range(4):
        if f[k][0] != 'b':
            return 4
    if f[0][1] * 256 + f[1][1] != size + 4:
        return 5
    if f[2][1] != 255 or f[3][1] != 1:
        return 6
    if f[4] != ('src', 'seg', 0, size):
        return 7
    return 0


def ob_vr_wrapper(vrl: int, size: int, explicit: bool) -> int:
    """
    pre: 20 <= vrl <= 16384 and vrl % 2 == 0
    pre: 1 <= size <= 20000
    post: _ == 0
    """
    return vr_check(vrl, size, explicit)


def reach_vr_wrapper(vrl: int, size: int, explicit: bool) -> int:
    """
    pre: 20 <= vrl <= 16384 and vrl % 2 == 0
    pre: 1 <= size <= 20000
    post: _ != 0
    """
    return vr_check(vrl, size, explicit)


def vrl_check(v):
    try:
        DLISWriter._check_visible_record_length(v)
    except ValueError:
        ok = False
    else:
        ok = True
    want = (20 <= v <= 16384) and v % 2 == 0
    if ok == want:
        return 0
    return 1


def ob_vrl_accept(v: int) -> int:
    """
    Over all of Z: accepted iff even and 20 <= v <= 16384.
    post: _ == 0
    """
    return vrl_check(v)


def reach_vrl_accept(v: int) -> int:
    """
    post: _ != 0
    """
    return vrl_check(v)


# ----------------------------------------------------------------------------------------- storage unit label

def _digits_right(tokens, n, width):
    """tokens (width literal byte values) == decimal rendering of n right-justified with blanks."""
    # number of digits of n (n >= 0) by comparison, no str()
    nd = 1
    lim = 10
    while n >= lim:
        nd = nd + 1
        lim = lim * 10
    if nd > width:
        return False
    m = n
    k = width - 1
    for _ in range(nd):
        if tokens[k] != 48 + m % 10:
            return False
        m = m // 10
        k = k - 1
    while k >= 0:
        if tokens[k] != 32:
            return False
        k = k - 1
    return True


def sul_num_check(seq, mrl):
    sul = StorageUnitLabel.__new__(StorageUnitLabel)
    sul.sequence_number = seq
    sul.set_identifier = 'ID'
    sul.max_record_length = mrl
    try:
        lrb = sul.represent_as_bytes()
    except ValueError:
        if seq > 9999 or mrl > 99999:
            return 0
        return 1
    if seq > 9999:
        return 2
    b = lits(lrb.bts)
    if b is None or len(b) != 80:
        return 3
    if not _digits_right(b[0:4], seq, 4):
        return 4
    if b[4:9] != [86, 49, 46, 48, 48]:          # V1.00
        return 5
    if b[9:15] != [82, 69, 67, 79, 82, 68]:     # RECORD
        return 6
    if not _digits_right(b[15:20], mrl, 5):
        return 7
    if b[20:22] != [73, 68]:
        return 8
    for k in range(22, 80):
        if b[k] != 32:
            return 9
    return 0


def ob_sul_numbers(seq: int, mrl: int) -> int:
    """
    pre: 1 <= seq <= 12000
    pre: 20 <= mrl <= 16384
    post: _ == 0
    """
    return sul_num_check(seq, mrl)


def reach_sul_numbers(seq: int, mrl: int) -> int:
    """
    pre: 1 <= seq <= 12000
    pre: 20 <= mrl <= 16384
    post: _ != 0
    """
    return sul_num_check(seq, mrl)


def sul_ident_check(s):
    sul = StorageUnitLabel.__new__(StorageUnitLabel)
    sul.sequence_number = 1
    sul.set_identifier = s
    sul.max_record_length = 8192
    lrb = sul.represent_as_bytes()
    b = lits(lrb.bts)
    if b is None or len(b) != 80:
        return 1
    n = len(s)
    for k in range(60):
        if k < n:
            if b[20 + k] != ord(s[k]):
                return 2
        else:
            if b[20 + k] != 32:
                return 3
    return 0


def ob_sul_ident(s: str) -> int:
    """
    pre: len(s) <= 3 and s.isascii()
    post: _ == 0
    """
    return sul_ident_check(s)


def reach_sul_ident(s: str) -> int:
    """
    pre: len(s) <= 3 and s.isascii()
    post: _ != 0
    """
    return sul_ident_check(s)


def sul_ident_len_check(n):
    s = LenStr(n)
    sul = StorageUnitLabel.__new__(StorageUnitLabel)
    sul.sequence_number = 1
    sul.set_identifier = s
    sul.max_record_length = 8192
    try:
        lrb = sul.represent_as_bytes()
    except ValueError:
        if n > 60:
            return 0
        return 1
    if n > 60:
        return 2
    if len(lrb.bts) != 80:
        return 3
    if len(s.encodings) != 0 and s.encodings != [('ascii', 'strict')]:
        return 4
    return 0


def sul_ctor_check(mrl):
    try:
        StorageUnitLabel('X', 1, mrl)
    except ValueError:
        ok = False
    else:
        ok = True
    if ok == (mrl <= 16384):
        return 0
    return 1


def ob_sul_ctor(mrl: int) -> int:
    """
    post: _ == 0
    """
    return sul_ctor_check(mrl)


def reach_sul_ctor(mrl: int) -> int:
    """
    post: _ != 0
    """
    return sul_ctor_check(mrl)


# fixed-width text fields at their limit, with and without trailing blanks (decided by enumeration of the window)
try:
    from crosshair import realize
except ImportError:
    def realize(x):
        return x

from dliswriter.logical_record.eflr_types.file_header import FileHeaderItem, FileHeaderSet


def text_field_edges_check(field, k, j, lead):
    """field 0: storage-set identifier (60 characters); field 1: file header id (65).  The text is `lead` blanks, k
    letters and j trailing blanks: rejected iff longer than the field; otherwise written left-justified in exactly the
    field width."""
    k, j, lead = realize(k), realize(j), realize(lead)
    width = 60 if field == 0 else 65
    text = ' ' * lead + 'S' * k + ' ' * j
    n = lead + k + j
    try:
        if field == 0:
            sul = StorageUnitLabel(text)
            b = lits(sul.represent_as_bytes().bts)
            got = b[20:] if b is not None and len(b) == 80 else None
        else:
            it = FileHeaderItem(text, FileHeaderSet())
            it.origin_reference = 1
            b = lits(it._make_attrs_bytes())
            got = b[14:] if b is not None and len(b) == 14 + 65 else None
    except ValueError:
        return 0 if n > width else 1
    if n > width:
        return 2
    if got is None:
        return 3
    want = [ord(c) for c in text] + [32] * (width - n)
    return 0 if got == want else 4


def ob_text_field_edges(field: int, k: int, j: int, lead: int) -> int:
    """
    pre: 0 <= field <= 1 and 55 <= k <= 67 and 0 <= j <= 3 and 0 <= lead <= 1
    post: _ == 0
    """
    return text_field_edges_check(field, k, j, lead)


def reach_text_field_edges(field: int, k: int, j: int, lead: int) -> int:
    """
    pre: 0 <= field <= 1 and 55 <= k <= 67 and 0 <= j <= 3 and 0 <= lead <= 1
    post: _ != 0
    """
    return text_field_edges_check(field, k, j, lead)
