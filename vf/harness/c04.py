"""C04 / C05 — every item class x attribute site: assign through the public setter, encode the whole set with the real
EFLRSet._make_body_bytes, parse with the independent component grammar, compare with what was assigned."""
import struct
from datetime import datetime

from vf.harness.common import SHARD_I, SHARD_N, flat, lits
from vf.harness.objmodel import untraced
from vf.harness.items import (ITEM_SETS, N_SETS, ACTIVE_SITES, N_SITES, make_item, kind_of, int_range, ref_target, ident_example,
                              expected_code, DT0, reset_global_state, EFLRItem, RepC, THOROUGH, py_values)
from vf.rp66 import tokens as tk
from vf.stubs.lenstr import LenStr

REJECT = (ValueError, RuntimeError, TypeError)
from dliswriter.utils.enums import Unit as _Unit
UNIT_METER = _Unit('m')


def name_matches(t, item):
    nm = item.name
    if isinstance(nm, LenStr):
        return t == ('src', nm.src, 0, nm.n)
    return tk.text_equals(t, nm)


def vmatch(pv, py, code):
    """parsed value vs python value under representation code ``code``."""
    if code in (12, 13, 14, 15, 16, 17, 18, 26):
        return pv[0] == 'int' and pv[1] == py
    if code == 7:
        return pv[0] == 'float' and pv[1] == list(struct.pack('>d', float(py)))
    if code == 2:
        return pv[0] == 'float' and pv[1] == list(struct.pack('>f', float(py)))
    if code in (19, 20):
        if pv[0] not in ('ident', 'ascii'):
            return False
        if isinstance(py, LenStr):
            return pv[1] == ('src', py.src, 0, py.n)
        return tk.text_equals(pv[1], py)
    if code == 21:
        want = [py.year - 1900, 32 + py.month, py.day, py.hour, py.minute, py.second,
                (py.microsecond + 500) // 1000 // 256, (py.microsecond + 500) // 1000 % 256]
        return pv[0] == 'dtime' and pv[1] == want
    if code == 23:
        return (pv[0] == 'obname' and pv[1][0] == py.origin_reference and pv[1][1] == py.copy_number
                and name_matches(pv[1][2], py))
    if code == 24:
        return (pv[0] == 'objref' and tk.text_equals(pv[1], py.parent.set_type) and pv[2][0] == py.origin_reference
                and pv[2][1] == py.copy_number and name_matches(pv[2][2], py))
    return False


def item_check(si, mult, named, with_units, two, x, s, arm):
    reset_global_state()
    (ci, an) = ACTIVE_SITES[si]
    S = ITEM_SETS[ci]
    # named: False/True, or a mode 0..4: 0 no name, 1 named at construction, 2 named after construction, 3 renamed
    # after construction, 4 name removed after construction (set_name is a public attribute of the set)
    if named is True or named == 1:
        (init_name, late, named) = ('SN', False, True)
    elif named is False or named == 0:
        (init_name, late, named) = (None, False, False)
    elif named == 2:
        (init_name, late, named) = (None, True, True)
    elif named == 3:
        (init_name, late, named) = ('OLD', True, True)
    else:
        (init_name, late, named) = ('OLD', True, False)
    with untraced():                      # construction from concrete arguments only
        parent = S(set_name=init_name)
        if late:
            parent.set_name = 'SN' if named else None
        it = make_item(S, 'OBJ', parent=parent, origin=1)
        other = make_item(S, 'OBJ', parent=parent, origin=1) if two else None     # same name: copy number 1
        a = getattr(it, an)
        kind = kind_of(a)
    units_only = mult == 5                # units given, value never assigned: must be written as absent
    if units_only:
        if not (with_units and a._units_settable):
            return 0
        mult = 1
    pv = py_values(a, kind, mult, x, s, arm)
    if pv is None:
        return 0
    (assign, expect) = pv
    if an == 'long_name' and kind == 'refortext' and arm and len(s) == 0:
        return 0                          # an empty long name counts as "not specified": the documented default applies
    try:
        if not units_only:
            a.value = assign
        if with_units and a._units_settable:
            a.units = UNIT_METER if arm else 'm'          # the documented forms: enumeration member or its text
        body = parent._make_body_bytes()
    except REJECT:
        return 0                          # rejected specifications are not C04's subject (C12/C20)
    (ps, rule) = tk.parse_eflr(flat(body))
    if ps is None:
        return 100 + rule
    if not tk.text_equals(ps.type, S.set_type):
        return 1
    if named != (ps.name is not None) or (named and not tk.text_equals(ps.name, 'SN')):
        return 2
    labels = [at.label for at in it.attributes.values()]
    if len(ps.template) != len(labels):
        return 3
    for j in range(len(labels)):
        if not tk.text_equals(ps.template[j].label, labels[j]):
            return 3
        if ps.template[j].has_value or ps.template[j].has_count or ps.template[j].has_code:
            return 4
    if len(ps.objects) != (2 if two else 1):
        return 5
    for oi in range(len(ps.objects)):
        (ob, attrs) = ps.objects[oi]
        if ob[0] != 1 or ob[1] != oi or not tk.text_equals(ob[2], 'OBJ'):
            return 6
        if len(attrs) > len(labels):
            return 7
    (ob, attrs) = ps.objects[0]
    j = list(it.attributes.keys()).index(an)
    if j >= len(attrs):
        return 8                          # the assigned attribute was dropped
    pa = attrs[j]
    if units_only:
        return 0 if (pa.absent or (pa.count == 0 and not pa.has_value)) else 17
    n = len(expect)
    if n == 0:
        # an empty list: absent, or count 0 without a value - never "a value is there" without values
        if not (pa.absent or (pa.count == 0 and not pa.has_value)):
            return 9
    else:
        if pa.absent or not pa.has_value:
            return 10
        if pa.count != n or len(pa.values) != n:
            return 11
        code = expected_code(a, kind, expect[0])
        if code is None or pa.code != code:
            return 12
        for k in range(n):
            if not vmatch(pa.values[k], expect[k], code):
                return 13
    if with_units and a._units_settable and not pa.absent:
        if pa.units is None or not tk.text_equals(pa.units, 'm'):
            return 14
    elif not pa.absent and pa.units is not None:
        return 15
    if two:
        (_ob2, attrs2) = ps.objects[1]
        if j < len(attrs2) and not attrs2[j].absent and attrs2[j].has_value and kind != 'any':
            # the second object never had this attribute assigned (write-time defaults excepted)
            if an not in ('long_name', 'field_name', 'dimension', 'element_limit'):
                return 16
    return 0


def ob_item(si: int, mult: int, with_units: bool, x: int, s: str, arm: bool) -> int:
    """
    pre: 0 <= si < N_SITES and si % SHARD_N == SHARD_I
    pre: 0 <= mult <= 6
    pre: len(s) <= 2 and s.isascii()
    post: _ == 0
    """
    return item_check(si, mult, False, with_units, False, x, s, arm)


def reach_item(si: int, mult: int, with_units: bool, x: int, s: str, arm: bool) -> int:
    """
    pre: 0 <= si < N_SITES and si % SHARD_N == SHARD_I
    pre: 0 <= mult <= 6
    pre: len(s) <= 2 and s.isascii()
    post: _ != 0
    """
    return item_check(si, mult, False, with_units, False, x, s, arm)


def set_struct_check(ci, named, two, si):
    """Set component / template / object headers for every item class (finite choice, exhaustive)."""
    sites = [k for k in range(N_SITES) if ACTIVE_SITES[k][0] == ci]
    if not sites:
        return 0
    return item_check(sites[si % len(sites)], 1, named, False, two, 1, 'a', True)


def ob_set_struct(ci: int, named: int, two: bool, si: int) -> int:
    """
    pre: 0 <= ci < N_SETS and ci % SHARD_N == SHARD_I
    pre: 0 <= si <= 1 and 0 <= named <= 4
    post: _ == 0
    """
    return set_struct_check(ci, named, two, si)


def reach_set_struct(ci: int, named: int, two: bool, si: int) -> int:
    """
    pre: 0 <= ci < N_SETS and ci % SHARD_N == SHARD_I
    pre: 0 <= si <= 1 and 0 <= named <= 4
    post: _ != 0
    """
    return set_struct_check(ci, named, two, si)
