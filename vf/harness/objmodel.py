"""Helpers to build real DLISFile / LogicalFile objects inside harnesses (no numpy data path, no clock, no RNG)."""
from datetime import datetime

from vf.harness.common import THOROUGH, Rope, flat, lits, RepC, PLAIN

import dliswriter.logical_record.core.eflr.eflr_item as eflr_item_mod
import dliswriter.logical_record.eflr_types.frame as frame_mod
from dliswriter.file.file import DLISFile, LogicalFile
from dliswriter.logical_record import eflr_types
from dliswriter.configuration import global_config
from dliswriter.utils.internal import struct_writer as sw
from dliswriter.logical_record.core.logical_record import segment_attributes as sa_mod


def _ksetattr(o, n, v):
    # CrossHair runs the builtin setattr under NoTracing(); property setters would then execute untraced
    type(o).__setattr__(o, n, v)


if not PLAIN:
    eflr_item_mod.setattr = _ksetattr
    frame_mod.setattr = _ksetattr

T0 = datetime(2020, 1, 2, 3, 4, 5)

import contextlib
import numbers
import dliswriter.logical_record.core.attribute.subtypes as subtypes_mod

try:
    from crosshair.tracers import NoTracing, is_tracing
except ImportError:                                   # plain interpreter (dry runs)
    NoTracing, is_tracing = None, (lambda: False)


def untraced():
    """Context in which CrossHair does not trace: used ONLY around construction of objects from concrete arguments
    (same semantics, ~50x faster).  Never wraps code that sees a symbolic value."""
    if NoTracing is not None and is_tracing():
        return NoTracing()
    return contextlib.nullcontext()


class _IntegralFloat:
    """float(v) for an int v, as far as NumericAttribute._int_parser looks at it: lemma K4 (engine B) shows
    float(v).is_integer() is True for every 64-bit int."""

    def is_integer(self):
        return True


class _IntAsFloat:
    """float(v) for a *symbolic* int v inside NumericAttribute._float_parser: a number equal to v (exact below 2**53).
    Only comparisons are supported - harnesses never encode such a value (float kernels are outside the claim)."""

    def __init__(self, v):
        self.v = v

    def _o(self, o):
        return o.v if isinstance(o, _IntAsFloat) else o

    def __eq__(self, o):
        return self.v == self._o(o)

    def __ne__(self, o):
        return self.v != self._o(o)

    def __lt__(self, o):
        return self.v < self._o(o)

    def __le__(self, o):
        return self.v <= self._o(o)

    def __gt__(self, o):
        return self.v > self._o(o)

    def __ge__(self, o):
        return self.v >= self._o(o)

    def __hash__(self):
        return hash(self.v)

    def is_integer(self):
        return True


_real_float, _real_int = float, int


def _is_symbolic(v):
    if NoTracing is None or not is_tracing():
        return False
    with NoTracing():
        return type(v).__module__.startswith('crosshair')


def _kfloat_impl(v=0.0, caller=''):
    if _is_symbolic(v) and isinstance(v, _real_int) and not isinstance(v, bool):
        if caller == '_float_parser':
            return _IntAsFloat(v)        # a number equal to v; comparisons only
        return _IntegralFloat()          # symbolic int inside _int_parser: only .is_integer() is asked of it (lemma K4)
    return _real_float(v)


def _kint_impl(v=0, *a):
    if not a and isinstance(v, _real_int) and not isinstance(v, bool):
        return v
    return _real_int(v, *a)


class _ShimMeta(type):
    """The shims stand for the builtin *types* float / int inside attribute.subtypes: calling them converts (see above),
    isinstance / issubclass against them behave exactly like the builtin type."""

    def __instancecheck__(cls, obj):
        return isinstance(obj, cls._real)

    def __subclasscheck__(cls, sub):
        return issubclass(sub, cls._real)


class kfloat(metaclass=_ShimMeta):
    _real = _real_float

    def __new__(cls, v=0.0):
        import sys as _sys
        f = _sys._getframe(1)
        caller = ''
        for _ in range(6):                # CrossHair may put frames of its own between the call site and us
            if f is None:
                break
            if f.f_code.co_name in ('_int_parser', '_float_parser', 'convert_status'):
                caller = f.f_code.co_name
                break
            f = f.f_back
        return _kfloat_impl(v, caller)


class kint(metaclass=_ShimMeta):
    _real = _real_int

    def __new__(cls, v=0, *a):
        return _kint_impl(v, *a)


def install_number_shims():
    subtypes_mod.float = kfloat
    subtypes_mod.int = kint


if not PLAIN:
    install_number_shims()


def reset_global_state():
    """Every harness execution starts from a fresh-process state of the carriers listed in DESIGN appendix B."""
    global_config.high_compat_mode = False
    for m in (sw, sa_mod):
        for f in list(vars(m).values()):
            if hasattr(f, 'cache_clear'):
                f.cache_clear()


def new_file(n_lf=1, same_id=False):
    reset_global_state()
    df = DLISFile()
    lfs = [df.add_logical_file(fh_id='LF' + ('' if same_id else str(i)), fh_sequence_number=i + 1) for i in range(n_lf)]
    return df, lfs


def add_origin(lf, name='ORIGIN', ref=None, set_name=None):
    return lf.add_origin(name, file_set_number=7, origin_reference=ref, creation_time=T0, set_name=set_name)


def set_kind(rec):
    """'FILE-HEADER' / 'ORIGIN' / ... for EFLR sets; 'NOFMT' / 'FDATA' / the object itself otherwise."""
    st = getattr(rec, 'set_type', None)
    if isinstance(st, str):
        return st
    return type(rec).__name__


PERM4 = []
for _a in range(4):
    for _b in range(4):
        for _c in range(4):
            for _d in range(4):
                if len({_a, _b, _c, _d}) == 4:
                    PERM4.append((_a, _b, _c, _d))
PERM3 = [(0, 1, 2), (0, 2, 1), (1, 0, 2), (1, 2, 0), (2, 0, 1), (2, 1, 0)]
