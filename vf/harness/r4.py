"""Obligations added after the fourth round of seeded changes: state computed too early (label / header bytes), caller
lists aliased by attributes, long value lists, text that looks numeric."""
from vf.harness.common import SHARD_I, SHARD_N, THOROUGH, flat, lits, RepC
from vf.harness.objmodel import reset_global_state, untraced
from vf.harness.items import ITEM_SETS, make_item, ACTIVE_SITES, N_SITES, kind_of, py_values
from vf.rp66 import tokens as tk
from vf.harness.c09 import _digits_right_text

from dliswriter.logical_record.misc.storage_unit_label import StorageUnitLabel
from dliswriter.logical_record.eflr_types.file_header import FileHeaderItem, FileHeaderSet
from dliswriter.logical_record.eflr_types.axis import AxisItem, AxisSet
from dliswriter.logical_record.eflr_types.parameter import ParameterItem, ParameterSet

import struct

REJECT = (ValueError, RuntimeError, TypeError, AttributeError, OverflowError, struct.error)
FH_SEQ_MAX = 9999999999 if THOROUGH else 99999


# ------------------------------------------------------------------ the label is rendered from its CURRENT attributes

def sul_rerender_check(seq, mrl, seq2, mrl2, ch_seq, ch_mrl, ch_id):
    """A label rendered once (a first write), then any of its public attributes re-assigned: the next rendering is that
    of a fresh label with the new values."""
    sul = StorageUnitLabel('ID', seq, mrl)
    first = lits(sul.represent_as_bytes().bts)
    if first is None or len(first) != 80:
        return 1
    if ch_seq:
        sul.sequence_number = seq2
    if ch_mrl:
        sul.max_record_length = mrl2
    if ch_id:
        sul.set_identifier = 'XY'
    second = lits(sul.represent_as_bytes().bts)
    fresh = lits(StorageUnitLabel('XY' if ch_id else 'ID', seq2 if ch_seq else seq, mrl2 if ch_mrl else mrl).represent_as_bytes().bts)
    if second != fresh:
        return 2
    return 0


def ob_sul_rerender(seq: int, mrl: int, seq2: int, mrl2: int, ch_seq: bool, ch_mrl: bool, ch_id: bool) -> int:
    """
    pre: 1 <= seq <= 9999 and 1 <= seq2 <= 9999
    pre: 20 <= mrl <= 16384 and 20 <= mrl2 <= 16384
    post: _ == 0
    """
    return sul_rerender_check(seq, mrl, seq2, mrl2, ch_seq, ch_mrl, ch_id)


def reach_sul_rerender(seq: int, mrl: int, seq2: int, mrl2: int, ch_seq: bool, ch_mrl: bool, ch_id: bool) -> int:
    """
    pre: 1 <= seq <= 9999 and 1 <= seq2 <= 9999
    pre: 20 <= mrl <= 16384 and 20 <= mrl2 <= 16384
    post: _ != 0
    """
    return sul_rerender_check(seq, mrl, seq2, mrl2, ch_seq, ch_mrl, ch_id)


# ------------------------------------------------------- the file header is encoded from its CURRENT attributes

def fh_late_check(seq, seq0, ch_seq, ch_id, encode_first, s='AB'):
    """A file header item created with one sequence number / identifier and completed afterwards through its public
    attributes (optionally after a first encoding): encoded like a fresh item created with the final values."""
    reset_global_state()
    fhs = FileHeaderSet()
    it = FileHeaderItem('PRV' if ch_id else s, fhs, sequence_number=seq0 if ch_seq else seq, identifier='0')
    it.origin_reference = 1
    if encode_first:
        flat(fhs._make_body_bytes())
    if ch_seq:
        it.sequence_number = seq
    if ch_id:
        it.header_id = s
    (ps, rule) = tk.parse_eflr(flat(fhs._make_body_bytes()))
    if ps is None:
        return 100 + rule
    if len(ps.objects) != 1:
        return 1
    attrs = ps.objects[0][1]
    if len(attrs) != 2 or attrs[0].absent or attrs[1].absent:
        return 2
    a0, a1 = attrs[0], attrs[1]
    if a0.count != 1 or a0.code != 20 or a0.values[0][0] != 'ascii' or a0.values[0][1][0] != 'lit':
        return 3
    v = a0.values[0][1][1]
    if len(v) != 10 or not _digits_right_text(v, seq, 10):
        return 4                           # the sequence number the item has NOW, right-justified in 10
    if a1.count != 1 or a1.code != 20 or a1.values[0][0] != 'ascii' or a1.values[0][1][0] != 'lit':
        return 5
    w = a1.values[0][1][1]
    if len(w) != 65:
        return 6
    for k in range(65):
        if k < len(s):
            if w[k] != ord(s[k]):
                return 7                   # the identifier the item has NOW
        elif w[k] != 32:
            return 7
    return 0


def ob_fh_late(seq: int, seq0: int, ch_seq: bool, ch_id: bool, encode_first: bool) -> int:
    """
    pre: 1 <= seq <= FH_SEQ_MAX and 1 <= seq0 <= FH_SEQ_MAX
    post: _ == 0
    """
    return fh_late_check(seq, seq0, ch_seq, ch_id, encode_first)


def reach_fh_late(seq: int, seq0: int, ch_seq: bool, ch_id: bool, encode_first: bool) -> int:
    """
    pre: 1 <= seq <= FH_SEQ_MAX and 1 <= seq0 <= FH_SEQ_MAX
    post: _ != 0
    """
    return fh_late_check(seq, seq0, ch_seq, ch_id, encode_first)


# ------------------------------------------------------------------------ attributes do not alias the caller's list

def alias_check(si, x, s, arm, how):
    """A list handed to a multi-valued attribute (assignment, constructor keyword) and changed by the caller afterwards
    (append / clear / element replaced): the attribute keeps what it was given."""
    reset_global_state()
    (ci, an) = ACTIVE_SITES[si]
    S = ITEM_SETS[ci]
    with untraced():
        it = make_item(S, 'OBJ', origin=1)
        a = getattr(it, an)
        kind = kind_of(a)
    if not a.multivalued:
        return 0
    pv = py_values(a, kind, 2, x, s, arm)
    if pv is None:
        return 0
    given = list(pv[0])
    try:
        a.value = given
        before = flat(it.make_item_body_bytes())
    except REJECT:
        return 0
    if how == 0:
        given.append(given[0])
    elif how == 1:
        del given[:]
    else:
        given[0] = given[1]
    try:
        after = flat(it.make_item_body_bytes())
    except REJECT:
        return 1
    if after != before:
        return 2
    return 0


def ob_alias(si: int, x: int, s: str, arm: bool, how: int) -> int:
    """
    pre: 0 <= si < N_SITES and si % SHARD_N == SHARD_I
    pre: -3 <= x <= 3 and len(s) <= 1 and s.isascii() and 0 <= how <= 2
    post: _ == 0
    """
    return alias_check(si, x, s, arm, how)


def reach_alias(si: int, x: int, s: str, arm: bool, how: int) -> int:
    """
    pre: 0 <= si < N_SITES and si % SHARD_N == SHARD_I
    pre: -3 <= x <= 3 and len(s) <= 1 and s.isascii() and 0 <= how <= 2
    post: _ != 0
    """
    return alias_check(si, x, s, arm, how)


# ---------------------------------------------------------- long value lists: every element in range or the list refused

def long_list_check(n, pos, x, which):
    """A list of n integers (n up to 12) whose element at a symbolic position is a symbolic integer, on an attribute
    that keeps Python ints (AXIS coordinates; code SLONG): in range -> n values, the one at pos
    decodes to x; out of the SLONG range -> refused (never wrapped)."""
    reset_global_state()
    with untraced():
        it = AxisItem('OBJ', AxisSet(), origin_reference=1)
        a = it.coordinates
    vals = [k + 1 for k in range(n)]
    vals[pos] = x
    in_range = -2147483648 <= x <= 2147483647
    try:
        a.value = vals
        body = flat(it.parent._make_body_bytes())
    except REJECT:
        return 1 if in_range else 0
    if not in_range:
        return 2
    (ps, rule) = tk.parse_eflr(body)
    if ps is None:
        return 100 + rule
    attrs = ps.objects[0][1]
    j = list(it.attributes.keys()).index('coordinates')
    pa = attrs[j]
    if pa.absent or not pa.has_value or pa.count != n or pa.code != 14:
        return 3
    for k in range(n):
        v = pa.values[k]
        if v[0] != 'int' or v[1] != vals[k]:
            return 4
    return 0


def ob_long_list(n: int, pos: int, x: int, which: int) -> int:
    """
    pre: 1 <= n <= 12 and 0 <= pos < n and 0 <= which <= 1 and n % SHARD_N == SHARD_I % 12
    post: _ == 0
    """
    return long_list_check(n, pos, x, which)


def reach_long_list(n: int, pos: int, x: int, which: int) -> int:
    """
    pre: 1 <= n <= 12 and 0 <= pos < n and 0 <= which <= 1
    post: _ != 0
    """
    return long_list_check(n, pos, x, which)


# --------------------------------------------------------------- text that merely looks numeric stays text (C05)

from dliswriter.utils.internal.value_checkers import convert_maybe_numeric  # noqa: E402

NUMERIC_LOOKALIKES = ['nan', 'NaN', 'inf', '-inf', 'Infinity', '1e5', '1E5', '2e-3', '12', '-7', '+3', '1.5', '.5', '5.',
                      '1.5e3', 'abc', '', ' 7 ', '1_0', 'N/A', '0x10', '1e', 'e5', 'nan.', '1.2.3', '--1']
N_LOOKALIKES = len(NUMERIC_LOOKALIKES)


def lookalike_check(k, via):
    """The documented rule of the text-or-number attributes (PARAMETER values, AXIS coordinates): a string containing
    a '.' that float() accepts becomes that float, a string without '.' that int() accepts becomes that int, every
    other string - 'nan', 'inf', '1e5' included - stays the text the user gave."""
    s = NUMERIC_LOOKALIKES[k]
    want = s
    if '.' in s:
        try:
            want = float(s)
        except ValueError:
            pass
    else:
        try:
            want = int(s)
        except ValueError:
            pass
    if via == 0:
        got = convert_maybe_numeric(s)
    else:
        reset_global_state()
        with untraced():
            it = AxisItem('OBJ', AxisSet(), origin_reference=1)
        it.coordinates.value = [s]
        got = it.coordinates.value[0]
    if type(got) is not type(want):
        return 1
    if got != want:
        return 2
    return 0


def ob_lookalike(k: int, via: int) -> int:
    """
    pre: 0 <= k < N_LOOKALIKES and 0 <= via <= 1
    post: _ == 0
    """
    return lookalike_check(k, via)


def reach_lookalike(k: int, via: int) -> int:
    """
    pre: 0 <= k < N_LOOKALIKES and 0 <= via <= 1
    post: _ != 0
    """
    return lookalike_check(k, via)


# ------------------------------------------- two channels fed from ONE data set (different casts): C03 / C08 / C11

SD_NMIN = 1 if THOROUGH else 2     # quick tier: two rows (one row exercises no chunking); thorough: 1..2


_INT_SIZE = {'int8': 1, 'uint8': 1, 'int16': 2, 'uint16': 2, 'int32': 4, 'uint32': 4}


def _same_bytes(got, want):
    """Two slot dtypes that give the same record bytes for every source value: equal, or integer types of one size
    (a cast between integer types keeps the low-order bytes, whatever the signedness) - a difference there cannot be
    observed in the file, so it is not held against the code (round 6: a counterexample in that region did not
    reproduce on the real package)."""
    return got == want or (got in _INT_SIZE and want in _INT_SIZE and _INT_SIZE[got] == _INT_SIZE[want])


def shared_dataset_check(dtS, castA, castB, n, chunk, kind):
    """Channels A and B of one frame read the same data set (dataset_name re-assigned; HDF5 / dict / structured source)
    with different casts: every record has one slot per channel, each slot holds the SOURCE column cast directly to
    that channel's dtype (never through the other channel's dtype), and each channel declares the code of its own slot."""
    import vf.harness.c11 as h
    nps = h.nps
    nps.reset()
    df, (lf,) = h.new_file(1)
    h.add_origin(lf, 'O')
    a = lf.add_channel('A', cast_dtype=getattr(nps, h.DT_NAMES[castA]) if castA >= 0 else None)
    b = lf.add_channel('B', cast_dtype=getattr(nps, h.DT_NAMES[castB]) if castB >= 0 else None)
    a.dataset_name = 'ds'
    b.dataset_name = 'ds'
    fr = lf.add_frame('F', channels=(a, b))
    c = h.col('colS', n, dtS, '<', None)
    if kind == 0:
        src = {'ds': c}
    else:
        sdt = nps.StructDtype([('ds', c.dtype)])
        src = nps.structarr('caller', n, sdt, {'ds': nps.Field('caller', 'colS', 0, c.dtype, None)})
    try:
        recs = list(lf._make_multi_frame_data(fr, chunk_size=chunk, data=src))
    except h.REJECT:
        return 0                          # refusing a shared data set would be fail-closed; not what the library does today
    if len(recs) != n:
        return 1
    wantA = h.DT_NAMES[castA] if castA >= 0 else h.DT_NAMES[dtS]
    wantB = h.DT_NAMES[castB] if castB >= 0 else h.DT_NAMES[dtS]
    for r in recs:
        fl = r._slots.arr.fields
        if list(fl.keys()) != ['A', 'B']:
            return 2
        fa, fb = fl['A'], fl['B']
        if fa.column != 'colS' or fb.column != 'colS':
            return 3
        if not _same_bytes(fa.dt.name, wantA) or not _same_bytes(fb.dt.name, wantB):
            return 4                       # slot dtype is not the channel's own (and the bytes can differ)
        for f in (fa, fb):
            if f.src_dt is not None and f.src_dt.name != h.DT_NAMES[dtS]:
                return 5                   # cast through another channel's dtype instead of from the source
    for (chn, want) in ((a, wantA), (b, wantB)):
        code = chn.representation_code.value
        if code is None or code.value != h.DT_CODE[h.DT_NAMES.index(want)]:
            return 6                       # declared code differs from the slot's dtype
    return 0


def ob_shared_dataset(dtS: int, castA: int, castB: int, n: int, chunk: int, kind: int) -> int:
    """
    pre: 0 <= dtS < 8 and -1 <= castA < 8 and -1 <= castB < 8 and SD_NMIN <= n <= 2 and 1 <= chunk <= 2 and 0 <= kind <= 1
    pre: ((castA + 1) * 2 + kind) % SHARD_N == SHARD_I % 18
    post: _ == 0
    """
    return shared_dataset_check(dtS, castA, castB, n, chunk, kind)


def reach_shared_dataset(dtS: int, castA: int, castB: int, n: int, chunk: int, kind: int) -> int:
    """
    pre: 0 <= dtS < 8 and -1 <= castA < 8 and -1 <= castB < 8 and SD_NMIN <= n <= 2 and 1 <= chunk <= 2 and 0 <= kind <= 1
    post: _ != 0
    """
    return shared_dataset_check(dtS, castA, castB, n, chunk, kind)


# ---------------------------------------------- the write-time checks of a logical file (C12 fail-closed, C18, C20)

from vf.harness.objmodel import new_file, add_origin  # noqa: E402


def completeness_check(has_channel, has_frame, rej_frame, rej_channel):
    """check_objects (run by every write): a logical file without a channel or without a frame is refused - also when
    the only add_frame / add_channel call was REJECTED (the rejected call leaves an empty set registered, which is not
    an object)."""
    df, (lf,) = new_file(1)
    add_origin(lf, 'O')
    ch = None
    if has_channel:
        ch = lf.add_channel('C')
    if rej_channel:
        try:
            lf.add_channel('X', cast_dtype='not a dtype')
        except REJECT:
            pass
        else:
            return 9
    if has_frame and ch is not None:
        lf.add_frame('F', channels=(ch,))
    if rej_frame:
        try:
            lf.add_frame('G', channels=(ch,) if ch is not None else None, encrypted=2)
        except REJECT:
            pass
        else:
            return 9
    complete = has_channel and has_frame
    try:
        lf.check_objects()
    except RuntimeError:
        return 0 if not complete else 1
    return 0 if complete else 2


def ob_completeness(has_channel: bool, has_frame: bool, rej_frame: bool, rej_channel: bool) -> int:
    """
    post: _ == 0
    """
    return completeness_check(has_channel, has_frame, rej_frame, rej_channel)


def reach_completeness(has_channel: bool, has_frame: bool, rej_frame: bool, rej_channel: bool) -> int:
    """
    post: _ != 0
    """
    return completeness_check(has_channel, has_frame, rej_frame, rej_channel)


def foreign_channel_check(swap, extra, unused_own):
    """Two logical files with their own set names; a frame of the second is given a channel OBJECT of the first (in
    place of its own, or in addition): check_objects of the second file refuses it."""
    df, (lf1, lf2) = new_file(2)
    add_origin(lf1, 'O1', set_name='S1')
    add_origin(lf2, 'O2', set_name='S2')
    a1 = lf1.add_channel('DEPTH', set_name='S1')
    lf1.add_frame('F1', channels=(a1,), set_name='S1')
    b1 = lf2.add_channel('DEPTH', set_name='S2')
    b2 = lf2.add_channel('X', set_name='S2')
    chans = [b1, b2]
    if swap:
        chans[0] = a1                     # lf1's DEPTH in place of lf2's own (which is then in no frame)
    if extra:
        chans.append(a1)
    if unused_own:
        chans = chans[:1] + chans[2:]
    foreign = a1 in chans
    try:
        lf2.add_frame('F2', channels=tuple(chans), set_name='S2')
        lf2.check_objects()
    except REJECT:
        return 0 if foreign else 1
    return 2 if foreign else 0


def ob_foreign_channel(swap: bool, extra: bool, unused_own: bool) -> int:
    """
    post: _ == 0
    """
    return foreign_channel_check(swap, extra, unused_own)


def reach_foreign_channel(swap: bool, extra: bool, unused_own: bool) -> int:
    """
    post: _ != 0
    """
    return foreign_channel_check(swap, extra, unused_own)


REJ_ORIGIN_KW = [dict(creation_time='not a time'), dict(file_set_number=2.5), dict(file_set_number='7'),
                 dict(file_set_number=[7]), dict(no_such_keyword=1), dict(order_number=[]), dict(run_number='x'),
                 dict(well_id=3.5), dict(file_type=['A', 'B'])]
N_REJ_ORIGIN = len(REJ_ORIGIN_KW)


def rejected_origin_check(ref_rej, ref_ok, explicit_rej, explicit_ok, n_between, why=0, same_name=False):
    """The FIRST add_origin of a logical file is rejected (for one of several reasons: creation time, file set number of
    a wrong type, unknown keyword, ...); objects are added; a valid add_origin follows (optionally under the rejected
    origin's name): every object carries the reference of the valid origin, the ORIGIN set holds the valid origin
    only, copy number 0 - as if the rejected call had never been made."""
    df, (lf,) = new_file(1)
    kw = dict(file_set_number=7)
    kw.update(REJ_ORIGIN_KW[why])
    try:
        lf.add_origin('BAD', origin_reference=ref_rej if explicit_rej else None, **kw)
    except REJECT:
        pass
    else:
        return 0                            # this variant is accepted by the library: nothing was rejected
    zs = []
    for k in range(n_between):
        zs.append(lf.add_zone('Z' + str(k)))
    o = add_origin(lf, 'BAD' if same_name else 'O', ref=ref_ok if explicit_ok else None)
    later = lf.add_zone('LATER')
    for z in zs + [later]:
        if z.origin_reference != o.origin_reference:
            return 1
    if lf.file_header_item.origin_reference != o.origin_reference:
        return 2
    origins = list(lf.origins)
    if len(origins) != 1 or origins[0] is not o:
        return 3                            # the rejected origin is still part of the logical file
    if o.copy_number != 0:
        return 4
    if explicit_ok and o.origin_reference != ref_ok:
        return 5
    if lf.defining_origin is not o:
        return 6
    return 0


def ob_rejected_origin(ref_rej: int, ref_ok: int, explicit_rej: bool, explicit_ok: bool, n_between: int, why: int, same_name: bool) -> int:
    """
    pre: 1 <= ref_rej < 1073741824 and 1 <= ref_ok < 1073741824 and 0 <= n_between <= 2 and 0 <= why < N_REJ_ORIGIN
    pre: why % SHARD_N == SHARD_I % 9
    post: _ == 0
    """
    return rejected_origin_check(ref_rej, ref_ok, explicit_rej, explicit_ok, n_between, why, same_name)


def reach_rejected_origin(ref_rej: int, ref_ok: int, explicit_rej: bool, explicit_ok: bool, n_between: int, why: int, same_name: bool) -> int:
    """
    pre: 1 <= ref_rej < 1073741824 and 1 <= ref_ok < 1073741824 and 0 <= n_between <= 2 and 0 <= why < N_REJ_ORIGIN
    post: _ != 0
    """
    return rejected_origin_check(ref_rej, ref_ok, explicit_rej, explicit_ok, n_between, why, same_name)


# ------------------------------------------------- soft enumerations: the verdict depends on the mode NOW (C14 / C17)

from dliswriter.configuration import global_config  # noqa: E402


_SEH_COUNTER = [0]


def soft_enum_history_check(ei, mode1, mode2, same_conv):
    """A non-member value goes through a soft converter twice (same converter object or a second one of the same
    enumeration), in modes mode1 then mode2: each call is judged by the mode in force at that call - a value accepted
    (with a warning) outside the mode earlier in the process is still refused inside it."""
    import vf.harness.c17 as h
    E = h.ENUMS[ei]
    c1 = E.make_converter('x', soft=True)
    c2 = c1 if same_conv else E.make_converter('y', soft=True)
    _SEH_COUNTER[0] = _SEH_COUNTER[0] + 1
    v = 'NOT-A-MEMBER-' + str(_SEH_COUNTER[0])     # a value no earlier path of this process has used (process-level state)
    outcomes = []
    for (c, mode) in ((c1, mode1), (c2, mode2)):
        global_config.high_compat_mode = mode
        try:
            try:
                r = c(v)
            except ValueError:
                outcomes.append(False)
            else:
                outcomes.append(r == v)
        finally:
            global_config.high_compat_mode = False
    if outcomes[0] != (not mode1):
        return 1
    if outcomes[1] != (not mode2):
        return 2
    return 0


def ob_soft_enum_history(ei: int, mode1: bool, mode2: bool, same_conv: bool) -> int:
    """
    pre: 0 <= ei < 4
    post: _ == 0
    """
    return soft_enum_history_check(ei, mode1, mode2, same_conv)


def reach_soft_enum_history(ei: int, mode1: bool, mode2: bool, same_conv: bool) -> int:
    """
    pre: 0 <= ei < 4
    post: _ != 0
    """
    return soft_enum_history_check(ei, mode1, mode2, same_conv)


# -------------------------- index bounds come from the rows written, not from extremes declared on the channel (C13)

def channel_extremes_check(a, b, c, n, has_min, has_max):
    import vf.harness.c13 as h
    npv = h.npv
    with untraced():
        reset_global_state()
        ch = h.ChannelItem('IDX', h.ChannelSet(), origin_reference=1)
        if has_min:
            ch.minimum_value.value = [-5.0]
        if has_max:
            ch.maximum_value.value = [70000.0]
        fr = h.FrameItem('FR', h.FrameSet(), channels=(ch,), origin_reference=1)
        fr.index_type.value = 'BOREHOLE-DEPTH'
    vals = [a, b, c][:n]
    fr._setup_frame_params_from_data(h.FakeData(npv.VArr(vals, npv.IDtype('int32'))))
    lo = vals[0]
    hi = vals[0]
    for v in vals:
        if v < lo:
            lo = v
        if v > hi:
            hi = v
    if fr.index_min.value != lo or fr.index_max.value != hi:
        return 1
    return 0


def ob_channel_extremes(a: int, b: int, c: int, n: int, has_min: bool, has_max: bool) -> int:
    """
    pre: 0 <= a <= 60000 and 0 <= b <= 60000 and 0 <= c <= 60000 and 1 <= n <= 3
    post: _ == 0
    """
    return channel_extremes_check(a, b, c, n, has_min, has_max)


def reach_channel_extremes(a: int, b: int, c: int, n: int, has_min: bool, has_max: bool) -> int:
    """
    pre: 0 <= a <= 60000 and 0 <= b <= 60000 and 0 <= c <= 60000 and 1 <= n <= 3
    post: _ != 0
    """
    return channel_extremes_check(a, b, c, n, has_min, has_max)


# ------------------------------------------- window bounds given as numpy integers (np.searchsorted, argmax, ...): C11

try:
    from crosshair import realize as _realize
except ImportError:
    def _realize(x):
        return x

NPINT = ['int', 'int64', 'int32', 'intp', 'uint16']


def window_npint_check(kind, total, frm, to, tf, tt):
    """from_idx / to_idx given as numpy integer scalars (what np.searchsorted returns) select the same rows as the
    equal Python ints.  The numbers are concrete (a numpy scalar cannot be symbolic): 4 rows, every window."""
    import numpy as _np
    import vf.harness.c11 as h
    (kind, total, frm, to, tf, tt) = (_realize(kind), _realize(total), _realize(frm), _realize(to), _realize(tf), _realize(tt))
    h.nps.reset()
    (src, mapping, W) = h.make_source(kind, total, 2, 7, '<', '<', 3)
    f = frm if tf == 0 else getattr(_np, NPINT[tf])(frm)
    t = to if tt == 0 else getattr(_np, NPINT[tt])(to)
    try:
        w = W(src, mapping, from_idx=f, to_idx=t)
    except (TypeError, ValueError):
        return 0                          # refusing a numpy integer is fail-closed, not a wrong window
    if w.n_rows != to - frm:
        return 1
    chunk = w.load_chunk(0, None)
    if not h.chunk_rows_ok(chunk, to - frm, frm):
        return 2
    return 0


def ob_window_npint(kind: int, total: int, frm: int, to: int, tf: int, tt: int) -> int:
    """
    pre: 0 <= kind < 5 and total == 4 and 0 <= frm < to <= total and 0 <= tf <= 1 and 0 <= tt < 5
    pre: SHARD_N == 1 or (kind == (SHARD_I % 25) // 5 and tt == SHARD_I % 5)
    post: _ == 0
    """
    return window_npint_check(kind, total, frm, to, tf, tt)


def reach_window_npint(kind: int, total: int, frm: int, to: int, tf: int, tt: int) -> int:
    """
    pre: 0 <= kind < 5 and total == 4 and 0 <= frm < to <= total and 0 <= tf <= 1 and 0 <= tt < 5
    post: _ != 0
    """
    return window_npint_check(kind, total, frm, to, tf, tt)


# ------------------------------------------------------ the frame set-up never writes into the caller's index column (C19)

def setup_taint_check(kind, n, cast, has_type, anymask):
    """FrameItem.setup_from_data on every source kind, with and without an index type, with and without a cast on the
    index channel: no in-place operation reaches caller-owned memory or a view of it.  Data values are abstract (any
    data-dependent mask may be true or false: anymask).  Cut: the spacing/direction computation itself is replaced by
    an opaque result (it is decided on values in C13); what happens to the index column before and after it is not."""
    import vf.harness.c11 as h
    nps = h.nps
    nps.reset()
    (src, mapping, W) = h.make_source(kind, n + 2, 7, 7, '<', '<', 3)
    (fr, ca, cb) = h._frame()
    if has_type:
        fr.index_type.value = 'BOREHOLE-DEPTH'
    known = {} if not cast else {'A': [None, nps.float32, nps.float64][cast]}
    if cast:
        ca.cast_dtype = [None, nps.float32, nps.float64][cast]
    w = W(src, mapping, known_dtypes=known, from_idx=1, to_idx=n + 1)
    real = h.FrameItem._compute_spacing_and_direction
    h.FrameItem._compute_spacing_and_direction = staticmethod(lambda index_data: (None, None))
    nps.MASK_ORACLE[0] = anymask
    try:
        try:
            fr.setup_from_data(w)
        except h.REJECT:
            pass
    finally:
        h.FrameItem._compute_spacing_and_direction = real
        nps.MASK_ORACLE[0] = None
    for m in nps.MUTATIONS:
        if m[1] == 'caller':
            return 1
    return 0


def ob_setup_taint(kind: int, n: int, cast: int, has_type: bool, anymask: bool) -> int:
    """
    pre: 0 <= kind < 5 and 1 <= n <= 3 and 0 <= cast <= 2
    post: _ == 0
    """
    return setup_taint_check(kind, n, cast, has_type, anymask)


def reach_setup_taint(kind: int, n: int, cast: int, has_type: bool, anymask: bool) -> int:
    """
    pre: 0 <= kind < 5 and 1 <= n <= 3 and 0 <= cast <= 2
    post: _ != 0
    """
    return setup_taint_check(kind, n, cast, has_type, anymask)


LL_NS = (9, 12, 63, 64, 65, 128, 257, 1025) + ((127, 129, 255, 256, 4097, 16384, 16385, 65537) if THOROUGH else ())


def _ll_n(n):
    """List lengths of the boundary-window obligation: just above the small-list region, and around the powers of two
    at which an encoder could switch strategy (round 6: a bulk conversion from 64 values on)."""
    for v in LL_NS:
        if n == v:
            return True
    return False


def _ll_run(n, pos, x):
    # all three are concrete here; the long lists run outside the tracer (a traced 1000-element encode + parse costs
    # seconds per case and decides nothing more: there is no symbolic value left)
    if n > 12:
        with untraced():
            return long_list_check(n, pos, x, 0)
    return long_list_check(n, pos, x, 0)


LL_EDGES = [-2147483648, 2147483647, 4294967296, -4294967296, 1099511627776, 9223372036854775807, -9223372036854775808, 0]


def ob_long_list_edges(n: int, pos: int, k: int, d: int) -> int:
    """
    Boundary windows with concrete values (an encoder that hands the list to a C-level routine makes the symbolic
    obligation inconclusive): list lengths LL_NS (9 .. 1025, thorough .. 65537), first or last element = edge + d.
    pre: _ll_n(n) and (pos == 0 or pos == n - 1) and 0 <= k < 8 and -2 <= d <= 2
    pre: SHARD_N == 1 or k == SHARD_I % 8
    post: _ == 0
    """
    return _ll_run(_realize(n), _realize(pos), _realize(LL_EDGES[_realize(k)] + _realize(d)))


def reach_long_list_edges(n: int, pos: int, k: int, d: int) -> int:
    """
    pre: _ll_n(n) and (pos == 0 or pos == n - 1) and 0 <= k < 8 and -2 <= d <= 2
    post: _ != 0
    """
    return _ll_run(_realize(n), _realize(pos), _realize(LL_EDGES[_realize(k)] + _realize(d)))
