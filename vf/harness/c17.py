"""C17 — high-compatibility mode: context restore, name rule, enumerated attributes, channel/frame incidence, file-set numbers."""
from vf.harness.common import SHARD_I, SHARD_N
from vf.harness.objmodel import new_file, add_origin, reset_global_state, untraced, eflr_types, T0, global_config

from dliswriter.utils.high_compatibility_mode import high_compatibility_mode, high_compatibility_mode_decorator
from dliswriter.utils.internal.value_checkers import validate_string
from dliswriter.utils.internal.validator_enum import ValidatorEnum
from dliswriter.utils import enums
from dliswriter.file import file as file_mod
from dliswriter.logical_record.misc.storage_unit_label import StorageUnitLabel
from dliswriter.logical_record.eflr_types.file_header import FileHeaderItem, FileHeaderSet
from dliswriter.logical_record.eflr_types.comment import CommentItem, CommentSet


class Boom(Exception):
    pass


def context_check(initial, depth, fail_at, style):
    """Nested contexts (depth 1..3), an exception raised at level fail_at (0 = none): inside the flag is True at every
    level; afterwards it is what it was before.  style 0: nested with-blocks; 1: the outermost level is a decorated
    function around with-blocks; 2: every level is a function decorated with high_compatibility_mode_decorator (a
    decorated function calling a decorated function - recursion through the decorated name); 3: decorated levels
    alternate with with-blocks; 4: style 2 run twice in a row (the second run starts from what the first left)."""
    global_config.high_compat_mode = initial
    seen = []

    def level(k):
        with high_compatibility_mode():
            seen.append(global_config.high_compat_mode)
            if k == fail_at:
                raise Boom()
            if k < depth:
                if style == 3:
                    dlevel(k + 1)
                else:
                    level(k + 1)
            seen.append(global_config.high_compat_mode)

    def _dlevel(k):
        seen.append(global_config.high_compat_mode)
        if k == fail_at:
            raise Boom()
        if k < depth:
            if style == 3:
                level(k + 1)
            else:
                dlevel(k + 1)
        seen.append(global_config.high_compat_mode)

    dlevel = high_compatibility_mode_decorator(_dlevel)

    for _round in range(2 if style == 4 else 1):
        try:
            if style == 1:
                high_compatibility_mode_decorator(level)(1)
            elif style >= 2:
                dlevel(1)
            else:
                level(1)
        except Boom:
            if fail_at == 0 or fail_at > depth:
                return 1
        else:
            if 1 <= fail_at <= depth:
                return 2
        for v in seen:
            if v is not True:
                return 3
        if global_config.high_compat_mode is not initial:
            return 4
    return 0


def ob_context(initial: bool, depth: int, fail_at: int, style: int) -> int:
    """
    pre: 1 <= depth <= 3 and 0 <= fail_at <= 3 and 0 <= style <= 4
    post: _ == 0
    """
    return context_check(initial, depth, fail_at, style)


def reach_context(initial: bool, depth: int, fail_at: int, style: int) -> int:
    """
    pre: 1 <= depth <= 3 and 0 <= fail_at <= 3 and 0 <= style <= 4
    post: _ != 0
    """
    return context_check(initial, depth, fail_at, style)


def _allowed_char(c):
    o = ord(c)
    return (65 <= o <= 90) or (48 <= o <= 57) or o == 95 or o == 45


def name_rule_check(s, mode):
    global_config.high_compat_mode = mode
    try:
        try:
            r = validate_string(s)
        except ValueError:
            ok = False
        else:
            ok = True
            if r != s:
                return 3
    finally:
        global_config.high_compat_mode = False
    want = True
    if mode:
        want = len(s) > 0
        for c in s:
            if not _allowed_char(c):
                want = False
    if ok != want:
        return 1
    return 0


def ob_name_rule(s: str, mode: bool) -> int:
    """
    In the mode a string is accepted iff it matches [A-Z0-9_-]+ (character-wise oracle); outside it always is.
    pre: len(s) <= 3
    post: _ == 0
    """
    return name_rule_check(s, mode)


def reach_name_rule(s: str, mode: bool) -> int:
    """
    pre: len(s) <= 3
    post: _ != 0
    """
    return name_rule_check(s, mode)


NAME_EXAMPLES = ['OK-1_A', 'lower', 'SP ACE', 'DOT.', '', 'Z', 'NL\n', '\nNL', 'TAB\t', 'A\x00']
NAME_VALID = [True, False, False, False, False, True, False, False, False, False]
N_NAMES = len(NAME_EXAMPLES)


def name_sites_check(site, ei, mode):
    """Every place a user-supplied name enters (object name, storage-set identifier, header id) applies the rule."""
    reset_global_state()
    global_config.high_compat_mode = mode
    s = NAME_EXAMPLES[ei]
    try:
        try:
            if site == 0:
                CommentItem(s, CommentSet())
            elif site == 1:
                StorageUnitLabel(s)
            elif site == 2:
                FileHeaderItem(s, FileHeaderSet())
            elif site == 3:
                # round 6: the same names assigned AFTER creation (public attributes), then encoded - all inside the mode
                it = CommentItem('OK', CommentSet())
                it.origin_reference = 1
                it.name = s
                it.make_item_body_bytes()
            elif site == 4:
                sul = StorageUnitLabel('OK')
                sul.set_identifier = s
                sul.represent_as_bytes()
            else:
                fh = FileHeaderItem('OK', FileHeaderSet())
                fh.origin_reference = 1
                fh.header_id = s
                fh.parent._make_body_bytes()
        except ValueError:
            ok = False
        else:
            ok = True
    finally:
        global_config.high_compat_mode = False
    want = NAME_VALID[ei] if mode else True
    return 0 if ok == want else 1


def ob_name_sites(site: int, ei: int, mode: bool) -> int:
    """
    pre: 0 <= site <= 5 and 0 <= ei < N_NAMES
    post: _ == 0
    """
    return name_sites_check(site, ei, mode)


def reach_name_sites(site: int, ei: int, mode: bool) -> int:
    """
    pre: 0 <= site <= 5 and 0 <= ei < N_NAMES
    post: _ != 0
    """
    return name_sites_check(site, ei, mode)


ENUMS = [enums.Unit, enums.FrameIndexType, enums.EquipmentType, enums.EquipmentLocation]


def soft_enum_check(ei, kind, mode):
    """Soft converters (units, index type, equipment type/location): member and member value accepted and mapped to the
    value; a non-member raises iff the mode is on, otherwise it is kept."""
    E = ENUMS[ei]
    member = list(E.__members__.values())[0]
    conv = E.make_converter('x', soft=True)
    v = member if kind == 0 else member.value if kind == 1 else 'NOT-A-MEMBER-ZZ'
    global_config.high_compat_mode = mode
    try:
        try:
            r = conv(v)
        except ValueError:
            ok = False
        else:
            ok = True
    finally:
        global_config.high_compat_mode = False
    if kind <= 1:
        return 0 if (ok and r == member.value) else 1
    if mode:
        return 0 if not ok else 2
    return 0 if (ok and r == v) else 3


def ob_soft_enum(ei: int, kind: int, mode: bool) -> int:
    """
    pre: 0 <= ei < 4 and 0 <= kind <= 2
    post: _ == 0
    """
    return soft_enum_check(ei, kind, mode)


def reach_soft_enum(ei: int, kind: int, mode: bool) -> int:
    """
    pre: 0 <= ei < 4 and 0 <= kind <= 2
    post: _ != 0
    """
    return soft_enum_check(ei, kind, mode)


def enum_sites_check(site, mode):
    """The four restricted attributes are wired to their soft converters: units of an attribute, frame index type,
    equipment type, equipment location."""
    reset_global_state()
    global_config.high_compat_mode = mode
    try:
        try:
            if site == 0:
                c = eflr_types.ChannelItem('C', eflr_types.ChannelSet())
                c.units.value = 'not-a-unit'
            elif site == 1:
                a = eflr_types.AxisItem('A', eflr_types.AxisSet())
                a.spacing.units = 'not-a-unit'
            elif site == 2:
                c = eflr_types.ChannelItem('C', eflr_types.ChannelSet())
                eflr_types.FrameItem('F', eflr_types.FrameSet(), channels=(c,), index_type='NOT-AN-INDEX-TYPE')
            elif site == 3:
                eflr_types.EquipmentItem('E', eflr_types.EquipmentSet(), _type='NOT-A-TYPE')
            else:
                eflr_types.EquipmentItem('E', eflr_types.EquipmentSet(), location='NOT-A-LOCATION')
        except ValueError:
            ok = False
        else:
            ok = True
    finally:
        global_config.high_compat_mode = False
    return 0 if ok == (not mode) else 1


def ob_enum_sites(site: int, mode: bool) -> int:
    """
    pre: 0 <= site <= 4
    post: _ == 0
    """
    return enum_sites_check(site, mode)


def reach_enum_sites(site: int, mode: bool) -> int:
    """
    pre: 0 <= site <= 4
    post: _ != 0
    """
    return enum_sites_check(site, mode)


def incidence_check(a1, a2, b1, b2, mode):
    """Two channels x two frames with a symbolic incidence matrix: in the mode the check raises iff some channel is in
    a number of frames different from one; outside it never raises."""
    if not ((a1 or b1) and (a2 or b2)):
        return 0                           # a frame needs at least one channel
    df, (lf,) = new_file(1)
    add_origin(lf, 'O')
    ca = lf.add_channel('A')
    cb = lf.add_channel('B')
    lf.add_frame('F1', channels=tuple(c for c, f in ((ca, a1), (cb, b1)) if f))
    lf.add_frame('F2', channels=tuple(c for c, f in ((ca, a2), (cb, b2)) if f))
    global_config.high_compat_mode = mode
    try:
        try:
            lf._check_channels_assigned_to_frames()
        except RuntimeError:
            ok = False
        else:
            ok = True
    finally:
        global_config.high_compat_mode = False
    na = (1 if a1 else 0) + (1 if a2 else 0)
    nb = (1 if b1 else 0) + (1 if b2 else 0)
    want = True
    if mode and (na != 1 or nb != 1):
        want = False
    return 0 if ok == want else 1


def ob_incidence(a1: bool, a2: bool, b1: bool, b2: bool, mode: bool) -> int:
    """
    post: _ == 0
    """
    return incidence_check(a1, a2, b1, b2, mode)


def reach_incidence(a1: bool, a2: bool, b1: bool, b2: bool, mode: bool) -> int:
    """
    post: _ != 0
    """
    return incidence_check(a1, a2, b1, b2, mode)


def file_set_numbers_check(n_origins, mode):
    """In the mode origins without an explicit file-set number get 1, 2, ... (position in their set)."""
    df, (lf,) = new_file(1)
    global_config.high_compat_mode = mode
    try:
        got = []
        for k in range(n_origins):
            o = lf.add_origin('O' + str(k), creation_time=T0, file_set_number=None if mode else 5)
            got.append(o.file_set_number.value)
    finally:
        global_config.high_compat_mode = False
    if mode and got != list(range(1, n_origins + 1)):
        return 1
    if not mode and got != [5] * n_origins:
        return 2
    return 0


def ob_file_set_numbers(n_origins: int, mode: bool) -> int:
    """
    pre: 1 <= n_origins <= 3
    post: _ == 0
    """
    return file_set_numbers_check(n_origins, mode)


def reach_file_set_numbers(n_origins: int, mode: bool) -> int:
    """
    pre: 1 <= n_origins <= 3
    post: _ != 0
    """
    return file_set_numbers_check(n_origins, mode)


def raise_or_warn_check(mode):
    global_config.high_compat_mode = mode
    try:
        try:
            file_mod.raise_or_warn('m')
        except RuntimeError:
            ok = False
        else:
            ok = True
    finally:
        global_config.high_compat_mode = False
    return 0 if ok == (not mode) else 1


def ob_raise_or_warn(mode: bool) -> int:
    """
    post: _ == 0
    """
    return raise_or_warn_check(mode)
