"""Site table for harnesses: installs the import hook (via objmodel) and re-exports vf.sites."""
from vf.harness.objmodel import reset_global_state, untraced  # noqa: F401  (installs the hook first)
from vf.sites import *  # noqa: F401,F403
from vf.sites import (ITEM_SETS, N_SETS, SITES, SIG_SITES, ACTIVE_SITES, N_SITES, make_item, kind_of, int_range, ref_target,
                      ident_example, expected_code, DT0, EFLRItem, RepC, THOROUGH, IDENT_EX, signature, py_values)  # noqa: F401
