"""C06 — primitive encodings on the real ``write_struct`` dispatch (and the helpers it calls)."""
import struct

from vf.harness.common import THOROUGH, Rope, flat, lits, RepC, REAL_FORMATS, SHARD_I, SHARD_N

from dliswriter.utils.internal import struct_writer as sw
from dliswriter.utils.internal.struct_writer import write_struct
from dliswriter.logical_record.eflr_types.zone import ZoneItem, ZoneSet
from vf.stubs.lenstr import LenStr
from vf.stubs.fakedt import FakeDT

INT_CODES = [RepC.USHORT, RepC.UNORM, RepC.ULONG, RepC.SSHORT, RepC.SNORM, RepC.SLONG]
INT_WIDTH = [1, 2, 4, 1, 2, 4]
INT_SIGNED = [False, False, False, True, True, True]


def be_bytes(u, w):
    """Big-endian bytes of the non-negative integer u on w bytes (arithmetic only)."""
    out = []
    d = 1
    for _ in range(w - 1):
        d = d * 256
    for _ in range(w):
        out.append(u // d % 256)
        d = d // 256
    return out


def fixed_int_check(ci, v):
    code = INT_CODES[ci]
    w = INT_WIDTH[ci]
    top = 1
    for _ in range(w):
        top = top * 256
    if INT_SIGNED[ci]:
        lo, hi = -(top // 2), top // 2 - 1
    else:
        lo, hi = 0, top - 1
    try:
        r = write_struct(code, v)
    except struct.error:
        if lo <= v <= hi:
            return 1
        return 0
    if not (lo <= v <= hi):
        return 2
    b = lits(r)
    if b is None or len(b) != w:
        return 3
    u = v if v >= 0 else v + top
    if b != be_bytes(u, w):
        return 4
    return 0


def ob_fixed_int(ci: int, v: int) -> int:
    """
    USHORT/UNORM/ULONG/SSHORT/SNORM/SLONG over all integers: in range -> big-endian two's complement of the code's
    width, out of range -> struct.error.
    pre: 0 <= ci < 6
    post: _ == 0
    """
    return fixed_int_check(ci, v)


def reach_fixed_int(ci: int, v: int) -> int:
    """
    pre: 0 <= ci < 6
    post: _ != 0
    """
    return fixed_int_check(ci, v)


def uvari_expect(v):
    if v < 128:
        return [v]
    if v < 16384:
        return [128 + v // 256, v % 256]
    return [192 + v // 16777216, v // 65536 % 256, v // 256 % 256, v % 256]


def uvari_check(v):
    try:
        r = write_struct(RepC.UVARI, v)
    except struct.error:
        if 0 <= v < 1073741824:
            return 1
        return 0
    if not (0 <= v < 1073741824):
        return 2
    b = lits(r)
    if b is None or b != uvari_expect(v):
        return 3
    return 0


def ob_uvari(v: int) -> int:
    """
    UVARI over all integers: 1 byte below 128, 2 bytes '10' below 16384, 4 bytes '11' below 2**30, otherwise raises.
    post: _ == 0
    """
    return uvari_check(v)


def reach_uvari(v: int) -> int:
    """
    post: _ != 0
    """
    return uvari_check(v)


def wit_uvari_4byte(v: int) -> bool:
    """
    pre: 16384 <= v < 1073741824
    post: not _
    """
    return uvari_check(v) == 0


def status_check(v):
    try:
        r = write_struct(RepC.STATUS, v)
    except ValueError:
        if v == 0 or v == 1:
            return 1
        return 0
    if v != 0 and v != 1:
        return 2
    if lits(r) != [v]:
        return 3
    return 0


def ob_status(v: int) -> int:
    """
    post: _ == 0
    """
    return status_check(v)


def reach_status(v: int) -> int:
    """
    post: _ != 0
    """
    return status_check(v)


# ------------------------------------------------------------------------------------- IDENT / ASCII lengths

def text_len_check(code, n, ident):
    s = LenStr(n, 'txt')
    try:
        r = write_struct(code, s)
    except struct.error:
        if ident:
            return 0 if n > 255 else 1
        return 0 if n >= 1073741824 else 1
    if ident and n > 255:
        return 2
    if (not ident) and n >= 1073741824:
        return 2
    f = flat(r)
    if ident:
        pre = [n]
    else:
        pre = uvari_expect(n)
    k = len(pre)
    if len(f) < k:
        return 3
    for i in range(k):
        if f[i][0] != 'b' or f[i][1] != pre[i]:
            return 4
    if n == 0:
        if len(f) != k:
            return 5
    else:
        if len(f) != k + 1 or f[k] != ('src', 'txt', 0, n):
            return 5
    if s.encodings != [('ascii', 'strict')]:
        return 6
    return 0


def ob_ident_len(n: int) -> int:
    """
    IDENT: one USHORT length byte then the characters; more than 255 characters raises; encoded with strict 'ascii'.
    pre: 0 <= n <= 70000
    post: _ == 0
    """
    return text_len_check(RepC.IDENT, n, True)


def reach_ident_len(n: int) -> int:
    """
    pre: 0 <= n <= 70000
    post: _ != 0
    """
    return text_len_check(RepC.IDENT, n, True)


def wit_ident_long(n: int) -> bool:
    """
    pre: 128 <= n <= 255
    post: not _
    """
    return text_len_check(RepC.IDENT, n, True) == 0


def ob_ascii_len(n: int) -> int:
    """
    ASCII: UVARI length then the characters; 2**30 or more characters raises; encoded with strict 'ascii'.
    pre: 0 <= n <= 1200000000
    post: _ == 0
    """
    return text_len_check(RepC.ASCII, n, False)


def reach_ascii_len(n: int) -> int:
    """
    pre: 0 <= n <= 1200000000
    post: _ != 0
    """
    return text_len_check(RepC.ASCII, n, False)


def text_content_check(ci, s):
    code = RepC.IDENT if ci == 0 else RepC.ASCII
    r = write_struct(code, s)
    b = lits(r)
    if b is None:
        return 1
    n = len(s)
    if len(b) != n + 1 or b[0] != n:
        return 2
    for i in range(n):
        if b[1 + i] != ord(s[i]):
            return 3
    return 0


def ob_text_content(ci: int, s: str) -> int:
    """
    pre: 0 <= ci <= 1
    pre: len(s) <= 3 and s.isascii()
    post: _ == 0
    """
    return text_content_check(ci, s)


def reach_text_content(ci: int, s: str) -> int:
    """
    pre: 0 <= ci <= 1
    pre: len(s) <= 3 and s.isascii()
    post: _ != 0
    """
    return text_content_check(ci, s)


# --------------------------------------------------------------------------------------------- OBNAME / OBJREF

def _item(origin, copy, n):
    z = ZoneItem.__new__(ZoneItem)
    object.__setattr__(z, 'name', LenStr(n, 'name'))
    object.__setattr__(z, '_origin_reference', origin)
    object.__setattr__(z, '_copy_number', copy)
    object.__setattr__(z, '_parent', ZoneSet())
    return z


def obname_tokens_check(f, origin, copy, n):
    """f: token list; returns number of tokens consumed or -1."""
    pre = uvari_expect(origin) + [copy, n]
    k = len(pre)
    if len(f) < k:
        return -1
    for i in range(k):
        if f[i][0] != 'b' or f[i][1] != pre[i]:
            return -1
    if n == 0:
        return k
    if len(f) < k + 1 or f[k] != ('src', 'name', 0, n):
        return -1
    return k + 1


def obname_check(origin, copy, n, as_objref):
    z = _item(origin, copy, n)
    try:
        r = write_struct(RepC.OBJREF if as_objref else RepC.OBNAME, z)
    except struct.error:
        if 0 <= origin < 1073741824 and 0 <= copy <= 255 and n <= 255:
            return 1
        return 0
    if not (0 <= origin < 1073741824 and 0 <= copy <= 255 and n <= 255):
        return 2
    f = flat(r)
    if as_objref:
        want = [4, 90, 79, 78, 69]          # IDENT 'ZONE'
        if len(f) < 5:
            return 3
        for i in range(5):
            if f[i] != ('b', want[i]):
                return 3
        f = f[5:]
    used = obname_tokens_check(f, origin, copy, n)
    if used < 0 or used != len(f):
        return 4
    return 0


def ob_obname(origin: int, copy: int, n: int, as_objref: bool) -> int:
    """
    OBNAME = UVARI origin, USHORT copy, IDENT name; OBJREF = IDENT set type + OBNAME.  Origin and copy over all
    integers (out of range raises), name of symbolic length.
    pre: 0 <= n <= 300
    post: _ == 0
    """
    return obname_check(origin, copy, n, as_objref)


def reach_obname(origin: int, copy: int, n: int, as_objref: bool) -> int:
    """
    pre: 0 <= n <= 300
    post: _ != 0
    """
    return obname_check(origin, copy, n, as_objref)


def obname_none_check():
    z = _item(None, 0, 3)
    try:
        write_struct(RepC.OBNAME, z)
    except RuntimeError:
        return 0
    return 1


# ------------------------------------------------------------------------------------------------------ DTIME

def dtime_check(y, mo, d, h, mi, s, ms_from_k3):
    """All fields except the millisecond (float kernel K3, engine B) are checked here; the microsecond is fixed to a
    value whose rounding is exact so the float expression collapses."""
    # the object handed in carries OTHER (local-time) calendar fields; only its conversion to UTC has y, mo, d, ...:
    # every written field must come from the UTC instant
    utc = FakeDT(y, mo, d, h, mi, s, ms_from_k3 * 1000)
    dt = FakeDT(1999 if y != 1999 else 2001, 1 if mo != 1 else 2, 28 if d != 28 else 27, 23 if h != 23 else 22,
                59 if mi != 59 else 58, 59 if s != 59 else 58, 999000, utc=utc)
    r = write_struct(RepC.DTIME, dt)
    b = lits(r)
    if b is None or len(b) != 8:
        return 1
    if b[0] != y - 1900:
        return 2
    if b[1] != 32 + mo:                      # time zone nibble 2 (GMT) and month nibble
        return 3
    if b[2] != d or b[3] != h or b[4] != mi or b[5] != s:
        return 4
    if b[6] * 256 + b[7] != ms_from_k3:
        return 5
    if dt.calls != [('astimezone', 'UTC')]:
        return 6
    return 0


def ob_dtime(y: int, mo: int, d: int, h: int, mi: int, s: int) -> int:
    """
    pre: 1900 <= y <= 2155 and 1 <= mo <= 12 and 1 <= d <= 31 and 0 <= h <= 23 and 0 <= mi <= 59 and 0 <= s <= 59
    post: _ == 0
    """
    return dtime_check(y, mo, d, h, mi, s, 0)


def reach_dtime(y: int, mo: int, d: int, h: int, mi: int, s: int) -> int:
    """
    pre: 1900 <= y <= 2155 and 1 <= mo <= 12 and 1 <= d <= 31 and 0 <= h <= 23 and 0 <= mi <= 59 and 0 <= s <= 59
    post: _ != 0
    """
    return dtime_check(y, mo, d, h, mi, s, 0)


# ------------------------------------------------------------------------------------------- boundary windows
# Bit operators make CrossHair realise integers, so a change such as ``value | OFFSET`` for ``value + OFFSET`` turns the
# all-integers obligations above into "Not confirmed".  The windows around every threshold are therefore also decided by
# enumeration (the solver picks each value of the window; 5 values per edge).

try:
    from crosshair import realize
except ImportError:                                    # plain interpreter
    def realize(x):
        return x

UV_EDGES = [0, 127, 128, 16383, 16384, 1073741823, 1073741824, 2147483648, 4294967295, 4294967296]
N_UV_EDGES = len(UV_EDGES)


def ob_uvari_edges(k: int, d: int) -> int:
    """
    pre: 0 <= k < N_UV_EDGES and -2 <= d <= 2
    post: _ == 0
    """
    return uvari_check(realize(UV_EDGES[k] + d))


def reach_uvari_edges(k: int, d: int) -> int:
    """
    pre: 0 <= k < N_UV_EDGES and -2 <= d <= 2
    post: _ != 0
    """
    return uvari_check(realize(UV_EDGES[k] + d))


INT_EDGES = [-2147483648, -32768, -128, 0, 127, 255, 32767, 65535, 2147483647, 4294967295]
N_INT_EDGES = len(INT_EDGES)


def ob_fixed_int_edges(ci: int, k: int, d: int) -> int:
    """
    pre: 0 <= ci < 6 and 0 <= k < N_INT_EDGES and -1 <= d <= 1
    post: _ == 0
    """
    return fixed_int_check(realize(ci), realize(INT_EDGES[k] + d))


def ob_obname_edges(k: int, d: int, copy: int, n: int) -> int:
    """
    pre: 0 <= k < N_UV_EDGES and -1 <= d <= 1
    pre: 254 <= copy <= 256 and 254 <= n <= 256
    post: _ == 0
    """
    return obname_check(realize(UV_EDGES[k] + d), realize(copy), realize(n), False)


def text_any_check(ci, s):
    """Any (also non-ASCII) short text: encoded exactly when it is ASCII, otherwise refused with UnicodeEncodeError -
    never replaced, dropped or escaped."""
    code = RepC.IDENT if ci == 0 else RepC.ASCII
    try:
        r = write_struct(code, s)
    except UnicodeEncodeError:
        return 0 if not s.isascii() else 1
    if not s.isascii():
        return 2
    b = lits(r)
    if b is None or len(b) != len(s) + 1 or b[0] != len(s):
        return 3
    for i in range(len(s)):
        if b[1 + i] != ord(s[i]):
            return 4
    return 0


CP_EDGES = [0, 31, 126, 127, 128, 129, 255, 256, 2047, 2048, 65535, 65536, 1114111]
N_CP = len(CP_EDGES)


def ob_text_codepoints(ci: int, k: int, second: bool) -> int:
    """
    One- and two-character texts whose (last) character sits at the edges of the ASCII range and of the UTF-8 length
    classes (enumerated window; a fully symbolic non-ASCII string makes CrossHair enumerate code points).
    pre: 0 <= ci <= 1 and 0 <= k < N_CP
    post: _ == 0
    """
    c = chr(CP_EDGES[realize(k)])
    return text_any_check(realize(ci), ('A' + c) if second else c)


def reach_text_codepoints(ci: int, k: int, second: bool) -> int:
    """
    pre: 0 <= ci <= 1 and 0 <= k < N_CP
    post: _ != 0
    """
    c = chr(CP_EDGES[realize(k)])
    return text_any_check(realize(ci), ('A' + c) if second else c)


def dtime_year_check(y):
    """Years outside 1900..2155 cannot be represented (one byte, offset 1900): refused, never wrapped."""
    utc = FakeDT(y, 6, 15, 12, 0, 0, 0)
    try:
        r = write_struct(RepC.DTIME, utc)
    except struct.error:
        return 0 if not (1900 <= y <= 2155) else 1
    if not (1900 <= y <= 2155):
        return 2
    b = lits(r)
    return 0 if (b is not None and b[0] == y - 1900) else 3


def ob_dtime_year(y: int) -> int:
    """
    post: _ == 0
    """
    return dtime_year_check(y)


def reach_dtime_year(y: int) -> int:
    """
    post: _ != 0
    """
    return dtime_year_check(y)


# ------------------------------------------------------------------ real str texts at length thresholds (round 6)

TL_EDGES = [1, 8, 16, 32, 64, 100, 128, 200, 255, 256, 512, 1000, 1024, 4096, 16384, 65536]
N_TL = len(TL_EDGES) if THOROUGH else len(TL_EDGES) - 2     # quick: up to 4096 characters


def real_text_len_check(ci, n):
    """A real str of n ASCII characters (not the LenStr stand-in: an encoder that asks isinstance(value, str) or looks at
    len(value) takes other paths for it) through the write_struct dispatch under IDENT and ASCII, and through write_struct_ident directly: IDENT =
    one USHORT length byte + the characters, more than 255 characters refused; ASCII = UVARI length + the characters."""
    ident = ci != 1
    s = ''.join(chr(65 + (i * 7 + n) % 26) for i in range(n))
    try:
        if ci == 2:
            r = sw.write_struct_ident(s)          # labels, units, set / object names come this way
        elif ci >= 3:
            # a real str as the NAME of an object, encoded as OBNAME (3) / OBJREF (4): origin 1, copy 0
            z = ZoneItem.__new__(ZoneItem)
            object.__setattr__(z, 'name', s)
            object.__setattr__(z, '_origin_reference', 1)
            object.__setattr__(z, '_copy_number', 0)
            object.__setattr__(z, '_parent', ZoneSet())
            r = write_struct(RepC.OBJREF if ci == 4 else RepC.OBNAME, z)
        else:
            r = write_struct(RepC.ASCII if ci == 1 else RepC.IDENT, s)
    except (struct.error, ValueError):
        return 0 if (ident and n > 255) else 1
    if ident and n > 255:
        return 2
    b = lits(r)
    if b is None:
        return 3
    pre = [n] if ident else uvari_expect(n)
    if ci >= 3:
        pre = ([4, 90, 79, 78, 69] if ci == 4 else []) + [1, 0, n]      # [IDENT 'ZONE'] origin 1, copy 0, name length
    if len(b) != len(pre) + n:
        return 4
    for i in range(len(pre)):
        if b[i] != pre[i]:
            return 5
    for i in range(n):
        if b[len(pre) + i] != ord(s[i]):
            return 6
    return 0


def _tl_run(ci, n):
    # both concrete; long texts run outside the tracer (nothing symbolic is left, tracing 4000 characters costs minutes)
    if n > 40:
        from vf.harness.objmodel import untraced
        with untraced():
            return real_text_len_check(ci, n)
    return real_text_len_check(ci, n)


def ob_text_len_edges(ci: int, k: int, d: int) -> int:
    """
    Enumerated window (concrete texts): lengths TL_EDGES +- 1 x IDENT / ASCII by dispatch / IDENT direct / object name in OBNAME / in OBJREF.
    pre: 0 <= ci <= 4 and 0 <= k < N_TL and -1 <= d <= 1
    pre: ci % SHARD_N == SHARD_I % 5
    post: _ == 0
    """
    return _tl_run(realize(ci), realize(TL_EDGES[realize(k)] + realize(d)))


def reach_text_len_edges(ci: int, k: int, d: int) -> int:
    """
    pre: 0 <= ci <= 4 and 0 <= k < N_TL and -1 <= d <= 1
    post: _ != 0
    """
    return _tl_run(realize(ci), realize(TL_EDGES[realize(k)] + realize(d)))
