"""C05 — metadata fidelity: assignment routes, write-time defaults only, date-times."""
from vf.harness.common import SHARD_I, SHARD_N, flat, lits, RepC
from vf.harness.objmodel import reset_global_state, untraced, eflr_types, T0
from vf.harness.items import make_item
from vf.rp66 import tokens as tk

from dliswriter.logical_record.core.eflr import AttrSetup
from dliswriter.logical_record.eflr_types.equipment import EquipmentItem, EquipmentSet
from dliswriter.logical_record.eflr_types.channel import ChannelItem, ChannelSet
from dliswriter.logical_record.eflr_types.origin import OriginItem, OriginSet
from dliswriter.logical_record.eflr_types.parameter import ParameterItem, ParameterSet
from dliswriter.logical_record.eflr_types.computation import ComputationItem, ComputationSet

REJECT = (ValueError, RuntimeError, TypeError, AttributeError)


def routes_check(route, s, with_units):
    """The four ways of assigning an attribute give the same stored value / units: keyword value, {'value','units'}
    dict, AttrSetup, later .value / .units; an unknown attribute or an unknown part is refused."""
    reset_global_state()
    h = 2.5
    if route == 0:
        it = EquipmentItem('E', EquipmentSet(), origin_reference=1, trademark_name=s, height=h)
        if with_units:
            it.height.units = 'm'
    elif route == 1:
        it = EquipmentItem('E', EquipmentSet(), origin_reference=1, trademark_name={'value': s},
                           height={'value': h, 'units': 'm'} if with_units else {'value': h})
    elif route == 2:
        it = EquipmentItem('E', EquipmentSet(), origin_reference=1, trademark_name=AttrSetup(value=s),
                           height=AttrSetup(value=h, units='m' if with_units else None))
    elif route == 3:
        it = EquipmentItem('E', EquipmentSet(), origin_reference=1)
        it.trademark_name.value = s
        it.height.value = h
        if with_units:
            it.height.units = 'm'
    elif route == 4:
        try:
            EquipmentItem('E', EquipmentSet(), origin_reference=1, no_such_attribute=s)
        except AttributeError:
            return 0
        return 1
    else:
        try:
            EquipmentItem('E', EquipmentSet(), origin_reference=1, trademark_name={'valeu': s})
        except ValueError:
            return 0
        return 2
    if it.trademark_name.value != s or it.trademark_name.units is not None:
        return 3
    if it.height.value != h or it.height.units != ('m' if with_units else None):
        return 4
    # every other attribute untouched
    for k, a in it.attributes.items():
        if k not in ('trademark_name', 'height') and (a.value is not None or a.units is not None):
            return 5
    # and what is encoded is what was stored
    body = flat(it.parent._make_body_bytes())
    (ps, rule) = tk.parse_eflr(body)
    if ps is None:
        return 100 + rule
    attrs = ps.objects[0][1]
    keys = list(it.attributes.keys())
    pa = attrs[keys.index('trademark_name')]
    if pa.absent or len(pa.values) != 1 or not tk.text_equals(pa.values[0][1], s):
        return 6
    ph = attrs[keys.index('height')]
    if ph.absent or (ph.units is None) == with_units:
        return 7
    for j in range(len(attrs)):
        if keys[j] not in ('trademark_name', 'height') and not attrs[j].absent:
            return 8                       # never-assigned attributes decode as absent
    return 0


def ob_routes(route: int, s: str, with_units: bool) -> int:
    """
    pre: 0 <= route <= 5
    pre: len(s) <= 3 and s.isascii()
    post: _ == 0
    """
    return routes_check(route, s, with_units)


def reach_routes(route: int, s: str, with_units: bool) -> int:
    """
    pre: 0 <= route <= 5
    pre: len(s) <= 3 and s.isascii()
    post: _ != 0
    """
    return routes_check(route, s, with_units)


def defaults_check(which, has_a, has_b, d, e):
    """Write-time defaults: only the documented ones appear and assigned values are never overwritten.
    which 0 ChannelItem (long name := name; dimension <-> element limit), 1 OriginItem (field name := WILDCAT),
    2 ParameterItem / 3 ComputationItem (dimension := [1] for flat values)."""
    reset_global_state()
    if which == 0:
        with untraced():
            it = ChannelItem('CHN', ChannelSet(), origin_reference=1)
        if has_a:
            it.dimension.value = [d]
        if has_b:
            it.element_limit.value = [e]
        if has_a and has_b and e < d:
            try:
                it._run_checks_and_set_defaults()
            except RuntimeError:
                return 0
            return 1
        it._run_checks_and_set_defaults()
        want_dim = [d] if has_a else ([e] if has_b else None)
        want_lim = [e] if has_b else ([d] if has_a else None)
        if it.dimension.value != want_dim or it.element_limit.value != want_lim:
            return 2
        if it.long_name.value != 'CHN':
            return 3
        changed = {'dimension', 'element_limit', 'long_name'}
    elif which == 1:
        it = OriginItem('O', OriginSet(), origin_reference=1, file_set_number=3, creation_time=T0,
                        field_name='F1' if has_a else None)
        it._run_checks_and_set_defaults()
        if it.field_name.value != ('F1' if has_a else 'WILDCAT'):
            return 4
        changed = {'field_name', 'file_set_number', 'creation_time'}
    else:
        it = (ParameterItem if which == 2 else ComputationItem)('P', (ParameterSet if which == 2 else ComputationSet)(),
                                                                origin_reference=1)
        if has_a:
            it.values.value = [1.5]
        if has_b:
            it.dimension.value = [1]
        it._run_checks_and_set_defaults()
        if it.values.value != ([1.5] if has_a else None):
            return 5
        if it.dimension.value != ([1] if (has_a or has_b) else None):
            return 6
        changed = {'values', 'dimension'}
    for k, a in it.attributes.items():
        if k not in changed and (a.value is not None or a.units is not None):
            return 7
    return 0


def ob_defaults(which: int, has_a: bool, has_b: bool, d: int, e: int) -> int:
    """
    pre: 0 <= which <= 3
    pre: 1 <= d <= 1048576 and 1 <= e <= 1048576
    post: _ == 0
    """
    return defaults_check(which, has_a, has_b, d, e)


def reach_defaults(which: int, has_a: bool, has_b: bool, d: int, e: int) -> int:
    """
    pre: 0 <= which <= 3
    pre: 1 <= d <= 1048576 and 1 <= e <= 1048576
    post: _ != 0
    """
    return defaults_check(which, has_a, has_b, d, e)


# --------------------------------------------------------------------------------- wiring of the add_* methods

import inspect
from vf.harness.common import SHARD_I, SHARD_N
from vf.harness.objmodel import new_file, add_origin
from vf.harness.items import kind_of, py_values, ITEM_SETS
from dliswriter.file.file import LogicalFile

# parameter of add_* -> attribute of the item, where the names differ (the standard's label is TYPE in all three)
PARAM_EXCEPTIONS = {'measurement_type': 'type', 'eq_type': '_type', 'message_type': '_type'}
NOT_ATTRIBUTES = {'self', 'name', 'set_name', 'origin_reference', 'data', 'dataset_name', 'cast_dtype'}

API_SITES = []          # (method name, parameter name)
for _n, _f in inspect.getmembers(LogicalFile, inspect.isfunction):
    if not _n.startswith('add_') or _n in ('add_no_format_frame_data', 'add_origin'):
        continue
    for _p in inspect.signature(_f).parameters:
        if _p not in NOT_ATTRIBUTES:
            API_SITES.append((_n, _p))
N_API = len(API_SITES)


def api_wiring_check(k, x, s, arm):
    """One keyword of one add_* method at a time: the value lands in the attribute of that name (documented renames
    excepted) of the object returned, in no other attribute, and the object is registered in this logical file."""
    (meth, param) = API_SITES[k]
    df, (lf,) = new_file(1)
    add_origin(lf, 'O')
    base = {}
    if meth == 'add_frame':
        base['channels'] = (lf.add_channel('C0'),)
    probe = getattr(lf, meth)('PROBE', **base)
    key = PARAM_EXCEPTIONS.get(param, param)
    a0 = getattr(probe, key, None)
    if a0 is None:
        return 1                          # no attribute of that name on the item
    kind = kind_of(a0)
    pv = py_values(a0, kind, 1, x, s, arm)
    if pv is None:
        return 0
    (assign, expect) = pv
    if meth == 'add_frame' and param == 'channels':
        assign = (lf.add_channel('C1'), lf.add_channel('C2'))
        expect = list(assign)
    kw = dict(base)
    kw[param] = assign
    try:
        it = getattr(lf, meth)('OBJ', **kw)
    except REJECT:
        return 0
    got = getattr(it, key).value
    want = expect if getattr(it, key).multivalued else expect[0]
    if got != want and not (isinstance(got, list) and list(got) == list(want)):
        return 2
    for (k2, a) in it.attributes.items():
        if k2 == key or k2 in base:
            continue
        if a.value is not None and k2 not in ('representation_code',):
            return 3                      # the value (or something else) also ended up in another attribute
    if it not in list(lf._eflr_sets.get_all_items_for_set_type(type(it.parent))):
        return 4
    if it.origin_reference != lf.default_origin_reference:
        return 5
    return 0


def ob_api_wiring(k: int, x: int, s: str, arm: bool) -> int:
    """
    pre: 0 <= k < N_API and k % SHARD_N == SHARD_I
    pre: 1 <= x <= 3 and len(s) <= 1 and s.isascii()
    post: _ == 0
    """
    return api_wiring_check(k, x, s, arm)


def reach_api_wiring(k: int, x: int, s: str, arm: bool) -> int:
    """
    pre: 0 <= k < N_API
    pre: 1 <= x <= 3 and len(s) <= 1 and s.isascii()
    post: _ != 0
    """
    return api_wiring_check(k, x, s, arm)
