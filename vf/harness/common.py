"""Prelude shared by all CrossHair harness modules: loads dliswriter from /repo/src through the rewriting import
hook and installs the StructShim into the RepresentationCode table (format strings are read from the real table)."""
import os
import sys

from vf import loader

PLAIN = os.environ.get('VF_PLAIN') == '1'      # replay mode: the unmodified package, no hook, no StructShim
if not PLAIN:
    loader.install()

from dliswriter.utils.internal.internal_enums import RepresentationCode as RepC  # noqa: E402
from vf.stubs.rope import Rope, StructShim  # noqa: E402

TIER = os.environ.get('VERIF_TIER', 'quick')
THOROUGH = TIER == 'thorough'
SHARD_I = int(os.environ.get('VF_SHARD_I', '0'))
SHARD_N = int(os.environ.get('VF_SHARD_N', '1'))

REAL_FORMATS = {}
for _m in RepC.__members__.values():
    if PLAIN:
        break
    if _m.converter is not None and not isinstance(_m.converter, StructShim):
        REAL_FORMATS[_m.name] = _m.converter.format
        _m.converter = StructShim(_m.converter.format)


def flat(x):
    """Token list of a Rope / bytes value."""
    if isinstance(x, Rope):
        return x.flat()
    return [('b', v) for v in x]


def lits(x):
    """List of literal byte values; None if the value contains source ranges."""
    out = []
    for t in flat(x):
        if t[0] != 'b':
            return None
        out.append(t[1])
    return out


def pad_info(tokens):
    """tokens: what follows the body inside a segment. -> (number of pad bytes, value of the last one) or (-1, 0)
    if something other than literal / repeated bytes is there."""
    n = 0
    last = 0
    for t in tokens:
        if t[0] == 'b':
            n = n + 1
            last = t[1]
        elif t[0] == 'rep':
            n = n + t[2]
            last = t[1]
        else:
            return (-1, 0)
    return (n, last)
