"""C07 — object identity, copy numbers, references, origin numbering."""
from vf.harness.common import SHARD_I, SHARD_N, flat, lits, RepC, Rope
from vf.harness.objmodel import (new_file, add_origin, untraced, reset_global_state, eflr_types, T0)
from vf.harness.items import ITEM_SETS, N_SETS, make_item
from vf.harness.c06 import uvari_expect, obname_tokens_check
from vf.rp66 import tokens as tk
from vf.stubs.lenstr import LenStr

from dliswriter.utils.internal.struct_writer import write_struct
from dliswriter.logical_record.eflr_types.comment import CommentItem, CommentSet
from dliswriter.logical_record.eflr_types.frame import FrameItem, FrameSet
from dliswriter.logical_record.eflr_types.no_format import NoFormatItem, NoFormatSet
from dliswriter.logical_record.iflr_types.frame_data import FrameData
from dliswriter.logical_record.iflr_types.no_format_frame_data import NoFormatFrameData
from dliswriter.logical_record.core.attribute.attribute import Attribute
from dliswriter.logical_record.core.attribute.subtypes import EFLRAttribute
from dliswriter.logical_record.core.eflr import EFLRSet


# ------------------------------------------------------------------------------------------- copy-number step

def copy_step_check(n0, n1, n2, n3):
    """Four objects with symbolic (short) names registered one after another in one set."""
    reset_global_state()
    s = CommentSet()
    names = [n0, n1, n2, n3]
    items = []
    for nm in names:
        items.append(CommentItem(nm, s))
    reg = s.get_all_eflr_items()
    if len(reg) != 4:
        return 1
    for k in range(4):
        if reg[k] is not items[k]:
            return 2                       # registration order == creation order
    for k in range(4):
        earlier = 0
        for j in range(k):
            if names[j] == names[k]:
                earlier = earlier + 1
        if items[k].copy_number != earlier:
            return 3
    for k in range(4):
        for j in range(k):
            if names[j] == names[k] and items[j].copy_number == items[k].copy_number:
                return 4                   # (name, copy) must be unique
    return 0


def ob_copy_step(n0: str, n1: str, n2: str, n3: str) -> int:
    """
    pre: len(n0) <= 1 and len(n1) <= 1 and len(n2) <= 1 and len(n3) <= 1
    pre: n0.isascii() and n1.isascii() and n2.isascii() and n3.isascii()
    post: _ == 0
    """
    return copy_step_check(n0, n1, n2, n3)


def reach_copy_step(n0: str, n1: str, n2: str, n3: str) -> int:
    """
    pre: len(n0) <= 1 and len(n1) <= 1 and len(n2) <= 1 and len(n3) <= 1
    pre: n0.isascii() and n1.isascii() and n2.isascii() and n3.isascii()
    post: _ != 0
    """
    return copy_step_check(n0, n1, n2, n3)


def wit_copy_two_same(n0: str, n1: str, n2: str, n3: str) -> bool:
    """
    pre: len(n0) <= 1 and len(n1) <= 1 and len(n2) <= 1 and len(n3) <= 1
    pre: n0.isascii() and n1.isascii() and n2.isascii() and n3.isascii()
    pre: n0 == n2 and n1 != n0 and n3 == n0
    post: not _
    """
    return copy_step_check(n0, n1, n2, n3) == 0


# -------------------------------------------------------------------------------------- definition == reference

def _bare(cls, set_cls, origin, copy, n, src):
    it = cls.__new__(cls)
    object.__setattr__(it, 'name', LenStr(n, src))
    object.__setattr__(it, '_origin_reference', origin)
    object.__setattr__(it, '_copy_number', copy)
    object.__setattr__(it, '_parent', set_cls())
    return it


def _consume_obname(f, origin, copy, n, src):
    pre = uvari_expect(origin) + [copy, n]
    k = len(pre)
    if len(f) < k + 1:
        return -1
    for i in range(k):
        if f[i] != ('b', pre[i]):
            return -1
    if f[k] != ('src', src, 0, n):
        return -1
    return k + 1


def identity_check(origin, copy, n, frame_number):
    reset_global_state()
    fr = _bare(FrameItem, FrameSet, origin, copy, n, 'nm')
    # (a) object header as written by make_item_body_bytes: 'p' (0x70) + OBNAME
    object.__setattr__(fr, '_run_checks_and_set_defaults', lambda: None)
    hdr = b'p' + fr.obname
    f = flat(hdr)
    if f[0] != ('b', 112) or _consume_obname(f[1:], origin, copy, n, 'nm') != len(f) - 1:
        return 1
    # (b) as the value of an OBNAME attribute and (c) of an OBJREF attribute
    a = Attribute('ref', representation_code=RepC.OBNAME)
    a._value = fr
    fa = flat(a.get_as_bytes())
    # descriptor 0x25 (ATTRIB, code + value), code byte 23, then the OBNAME
    if fa[0] != ('b', 37) or fa[1] != ('b', 23) or _consume_obname(fa[2:], origin, copy, n, 'nm') != len(fa) - 2:
        return 2
    b = Attribute('ref', representation_code=RepC.OBJREF)
    b._value = fr
    fb = flat(b.get_as_bytes())
    want = [37, 24, 5, 70, 82, 65, 77, 69]               # descriptor, code 24, IDENT 'FRAME'
    for i in range(8):
        if fb[i] != ('b', want[i]):
            return 3
    if _consume_obname(fb[8:], origin, copy, n, 'nm') != len(fb) - 8:
        return 3
    # (d) head of a frame-data record: OBNAME + UVARI frame number (no slots here)
    fd = FrameData(fr, frame_number, [], origin_reference=origin)
    body = flat(fd._make_body_bytes())
    used = _consume_obname(body, origin, copy, n, 'nm')
    if used < 0:
        return 4
    rest = body[used:]
    wantn = uvari_expect(frame_number)
    if len(rest) != len(wantn):
        return 5
    for i in range(len(wantn)):
        if rest[i] != ('b', wantn[i]):
            return 5
    lrb = fd.represent_as_bytes()
    if lrb._is_eflr or lits(lrb._lr_type_struct) != [0]:
        return 6
    # (e) head of a no-format record
    nf = _bare(NoFormatItem, NoFormatSet, origin, copy, n, 'nm')
    nb = flat(NoFormatFrameData(nf, b'')._make_body_bytes())
    if _consume_obname(nb, origin, copy, n, 'nm') != len(nb):
        return 7
    return 0


def ob_identity(origin: int, copy: int, n: int, frame_number: int) -> int:
    """
    pre: 0 <= origin < 1073741824 and 0 <= copy <= 255 and 1 <= n <= 255
    pre: 1 <= frame_number < 1073741824
    post: _ == 0
    """
    return identity_check(origin, copy, n, frame_number)


def reach_identity(origin: int, copy: int, n: int, frame_number: int) -> int:
    """
    pre: 0 <= origin < 1073741824 and 0 <= copy <= 255 and 1 <= n <= 255
    pre: 1 <= frame_number < 1073741824
    post: _ != 0
    """
    return identity_check(origin, copy, n, frame_number)


# ------------------------------------------------------------------------------------------ admissible references

REF_SITES = []
for _i, _S in enumerate(ITEM_SETS):
    _it = make_item(_S)
    for _k, _a in _it.attributes.items():
        if isinstance(_a, EFLRAttribute) and type(_a).__name__ == 'EFLRAttribute':
            REF_SITES.append((_i, _k))
N_REF = len(REF_SITES)


def ref_admissible_check(ri, ti):
    with untraced():
        (ci, an) = REF_SITES[ri]
        it = make_item(ITEM_SETS[ci])
        a = getattr(it, an)
        target = make_item(ITEM_SETS[ti], name='T')
        oc = a._object_class
        admissible = True if (oc is None or oc is EFLRSet) else isinstance(target, oc.item_type)
    try:
        a.value = [target] if a.multivalued else target
    except TypeError:
        return 0 if not admissible else 1
    if not admissible:
        return 2
    v = a.value[0] if a.multivalued else a.value
    if v is not target:
        return 3
    return 0


N_REF_PAIRS = N_REF * N_SETS


def ob_ref_admissible(k: int) -> int:
    """
    Every reference attribute accepts exactly the instances of its admissible class and stores the object passed
    (all reference attributes x all item classes; finite, exhaustive).
    pre: 0 <= k < N_REF_PAIRS and k % SHARD_N == SHARD_I
    post: _ == 0
    """
    return ref_admissible_check(k // N_SETS, k % N_SETS)


def reach_ref_admissible(k: int) -> int:
    """
    pre: 0 <= k < N_REF_PAIRS and k % SHARD_N == SHARD_I
    post: _ != 0
    """
    return ref_admissible_check(k // N_SETS, k % N_SETS)


# ------------------------------------------------------------------------------------------------- origins

def origins_check(r1, r2, zone_pos, zone_ref, second):
    """Two add_origin calls with symbolic explicit references (0 = default) and a zone added before / between / after,
    with or without an explicit reference."""
    df, (lf,) = new_file(1)
    z = None
    if zone_pos == 0:
        z = lf.add_zone('Z', origin_reference=zone_ref if zone_ref > 0 else None)
    try:
        o1 = add_origin(lf, 'O1', ref=r1 if r1 > 0 else None)
        if zone_pos == 1:
            z = lf.add_zone('Z', origin_reference=zone_ref if zone_ref > 0 else None)
        o2 = add_origin(lf, 'O2', ref=r2 if r2 > 0 else None) if second else None
    except RuntimeError:
        # only a clash of explicit references may be refused
        if second and r2 > 0 and (r2 == r1 or (r1 == 0 and r2 == 0)):
            return 0
        if second and r2 > 0:
            return 0 if r2 == (r1 if r1 > 0 else 0) else 1
        return 1
    if zone_pos == 2:
        z = lf.add_zone('Z', origin_reference=zone_ref if zone_ref > 0 else None)
    if r1 > 0 and o1.origin_reference != r1:
        return 2
    if second:
        if r2 > 0 and o2.origin_reference != r2:
            return 3
        if o1.origin_reference == o2.origin_reference:
            return 4                       # origin references must be unique within the logical file
    if lf.defining_origin is not o1:
        return 5
    want = zone_ref if zone_ref > 0 else o1.origin_reference
    if z.origin_reference != want:
        return 6
    if lf.file_header_item.origin_reference != o1.origin_reference:
        return 7
    return 0


def ob_origins(r1: int, r2: int, zone_pos: int, zone_ref: int, second: bool) -> int:
    """
    pre: 0 <= r1 <= 40000 and 0 <= r2 <= 40000 and 0 <= zone_ref <= 40000
    pre: 0 <= zone_pos <= 2
    post: _ == 0
    """
    return origins_check(r1, r2, zone_pos, zone_ref, second)


def reach_origins(r1: int, r2: int, zone_pos: int, zone_ref: int, second: bool) -> int:
    """
    pre: 0 <= r1 <= 40000 and 0 <= r2 <= 40000 and 0 <= zone_ref <= 40000
    pre: 0 <= zone_pos <= 2
    post: _ != 0
    """
    return origins_check(r1, r2, zone_pos, zone_ref, second)


# ---------------------------------------------------------------------------- uniqueness across sets of one type

def across_sets_check(same_name, named_a, named_b):
    df, (lf,) = new_file(1)
    add_origin(lf, 'O')
    a = lf.add_zone('X', set_name='S1' if named_a else None)
    b = lf.add_zone('X' if same_name else 'Y', set_name='S2' if named_b else None)
    ida = (a.parent.set_type, a.origin_reference, a.copy_number, a.name)
    idb = (b.parent.set_type, b.origin_reference, b.copy_number, b.name)
    if ida == idb:
        return 1
    return 0


def ob_across_sets(same_name: bool, named_a: bool, named_b: bool) -> int:
    """
    Two objects of one type in one logical file never share (type, origin, copy, name).  The region covered by known
    finding F6 (same name in two *different* sets of the type) is excluded here and decided by kf_across_sets.
    pre: not (same_name and (named_a or named_b))
    post: _ == 0
    """
    return across_sets_check(same_name, named_a, named_b)


def reach_across_sets(same_name: bool, named_a: bool, named_b: bool) -> int:
    """
    pre: not (same_name and (named_a or named_b))
    post: _ != 0
    """
    return across_sets_check(same_name, named_a, named_b)


def kf_across_sets(named_a: bool, named_b: bool) -> int:
    """
    Existence obligation for F6: same object name in two sets of one type with different set names.
    pre: named_a or named_b
    post: _ == 0
    """
    return across_sets_check(True, named_a, named_b)


# ---------------------------------------------------------------------------- copy numbers vs. origin references

def copy_origin_check(same01, same12, same02, e0, e1, e2, r, before):
    """Three comments added through the public API with a symbolic pattern of equal names and symbolic explicit origin
    references (0 = none given), before or after the origin exists: same-named objects get distinct copy numbers
    (= number of earlier same-named objects) and no two objects share (origin, copy, name) once the origin is there."""
    if same01 and same12 and not same02:
        return 0                           # not an equivalence pattern
    n0 = 'A'
    n1 = 'A' if same01 else 'B'
    n2 = n0 if same02 else (n1 if same12 else 'C')
    if (same01 and same02) != (same01 and same12) and same01:
        return 0
    names = [n0, n1, n2]
    ex = [e0, e1, e2]
    df, (lf,) = new_file(1)
    if not before:
        add_origin(lf, 'O', ref=r if r > 0 else None)
    items = [lf.add_comment(names[k], origin_reference=ex[k] if ex[k] > 0 else None) for k in range(3)]
    if before:
        add_origin(lf, 'O', ref=r if r > 0 else None)
    for k in range(3):
        earlier = 0
        for j in range(k):
            if names[j] == names[k]:
                earlier = earlier + 1
        if items[k].copy_number != earlier:
            return 1
    ids = [(it.origin_reference, it.copy_number, it.name) for it in items]
    for k in range(3):
        if ids[k][0] is None:
            return 2
        for j in range(k):
            if ids[j] == ids[k]:
                return 3
    return 0


def ob_copy_origin(same01: bool, same12: bool, same02: bool, e0: int, e1: int, e2: int, r: int, before: bool) -> int:
    """
    pre: 0 <= e0 <= 3 and 0 <= e1 <= 3 and 0 <= e2 <= 3 and 0 <= r <= 3
    post: _ == 0
    """
    return copy_origin_check(same01, same12, same02, e0, e1, e2, r, before)


def reach_copy_origin(same01: bool, same12: bool, same02: bool, e0: int, e1: int, e2: int, r: int, before: bool) -> int:
    """
    pre: 0 <= e0 <= 3 and 0 <= e1 <= 3 and 0 <= e2 <= 3 and 0 <= r <= 3
    post: _ != 0
    """
    return copy_origin_check(same01, same12, same02, e0, e1, e2, r, before)
