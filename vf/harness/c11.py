"""C11 / C03 / C08 / C12 / C18.1 / C19 — the Python-level data path over the provenance stub of numpy (vf.stubs.npstub)."""
from vf.harness.common import SHARD_I, SHARD_N, THOROUGH, Rope, flat, lits, RepC
from vf.harness.objmodel import new_file, add_origin, reset_global_state, untraced, eflr_types, T0, global_config
from vf.stubs import npstub as nps
from vf.harness.c06 import uvari_expect

import dliswriter.utils.source_data_wrappers as sdw
import dliswriter.utils.internal.converters as conv_mod
import dliswriter.file.file as file_mod
from dliswriter.utils.source_data_wrappers import (SourceDataWrapper, DictDataWrapper, NumpyDataWrapper, HDF5DataWrapper)
from dliswriter.file.multi_frame_data import MultiFrameData
from dliswriter.logical_record.iflr_types.frame_data import FrameData
from dliswriter.logical_record.eflr_types.channel import ChannelItem, ChannelSet
from dliswriter.logical_record.eflr_types.frame import FrameItem, FrameSet

H5 = nps.FakeH5Module()
sdw.np = nps
sdw.h5py = H5
conv_mod.np = nps
file_mod.np = nps
import dliswriter.logical_record.iflr_types.frame_data as fd_mod
fd_mod.np = nps
import dliswriter.logical_record.eflr_types.frame as frame_mod
frame_mod.np = nps          # the frame set-up casts the index column (np.asarray(...).astype(...))

DT_NAMES = ['int8', 'int16', 'int32', 'uint8', 'uint16', 'uint32', 'float32', 'float64']
DT_CODE = [12, 13, 14, 15, 16, 17, 2, 7]
DT_SIZE = [1, 2, 4, 1, 2, 4, 4, 8]
TOTAL_MAX = 1000000      # symbolic row counts: the cost does not grow with the bound (provenance stub)


def col(name, total, dti, order, width):
    return nps.ndarray('caller', name, 0, total, nps.SDtype(DT_NAMES[dti], order), width)


def make_source(kind, total, dtA, dtB, ordA, ordB, wB):
    """-> (source object, mapping channel->dataset, wrapper class). Channels: A (scalar), B (width wB or scalar)."""
    a = col('colA', total, dtA, ordA, None)
    b = col('colB', total, dtB, ordB, wB)
    x = col('colX', total, 7, '<', None)
    if kind == 0:       # dict, different order, an unused dataset
        return ({'dsB': b, 'extra': x, 'dsA': a}, {'A': 'dsA', 'B': 'dsB'}, DictDataWrapper)
    if kind == 1:       # structured array, different field order + an unused field: copy path
        sdt = nps.StructDtype([('dsB', b.dtype, wB), ('extra', x.dtype), ('dsA', a.dtype)])
        f = {'dsB': nps.Field('caller', 'colB', 0, b.dtype, wB), 'extra': nps.Field('caller', 'colX', 0, x.dtype, None),
             'dsA': nps.Field('caller', 'colA', 0, a.dtype, None)}
        return (nps.structarr('caller', total, sdt, f), {'A': 'dsA', 'B': 'dsB'}, NumpyDataWrapper)
    if kind == 2:       # structured array whose dtype equals the target dtype: fast path
        sdt = nps.StructDtype([('A', a.dtype), ('B', b.dtype, wB)])
        f = {'A': nps.Field('caller', 'colA', 0, a.dtype, None), 'B': nps.Field('caller', 'colB', 0, b.dtype, wB)}
        return (nps.structarr('caller', total, sdt, f), {'A': 'A', 'B': 'B'}, NumpyDataWrapper)
    if kind == 4:       # structured array with exactly the frame's channels but in another field order: copy path
        sdt = nps.StructDtype([('B', b.dtype, wB), ('A', a.dtype)])
        f = {'B': nps.Field('caller', 'colB', 0, b.dtype, wB), 'A': nps.Field('caller', 'colA', 0, a.dtype, None)}
        return (nps.structarr('caller', total, sdt, f), {'A': 'A', 'B': 'B'}, NumpyDataWrapper)
    # HDF5: one mapping entry with, one without the leading slash; an unused dataset
    H5.files['data.h5'] = nps.FakeH5File({'/dsA': a, '/dsB': b, '/extra': x})
    return ('data.h5', {'A': 'dsA', 'B': '/dsB'}, HDF5DataWrapper)


def chunk_rows_ok(chunk, n, row0):
    """chunk: structarr of n rows whose fields A, B show rows [row0, row0 + n) of colA / colB."""
    if not isinstance(chunk, nps.structarr) or chunk.n != n:
        return False
    if chunk.dtype.names != ('A', 'B'):
        return False
    for (nm, c) in (('A', 'colA'), ('B', 'colB')):
        f = chunk.fields[nm]
        if f.zero or f.bcast or f.column != c or f.a != row0:
            return False
    return True


WKINDS = 6           # the five source kinds + (round 6) permuted fields that all have ONE format: rows laid out alike


def window_check(kind, total, frm, to, to_none, start, stop, stop_none, dtA, dtB, wB):
    nps.reset()
    if kind == 5:
        # exactly the frame's channels, other field order, both fields of one format: only the NAMES tell the rows apart
        (src, mapping, W) = make_source(4, total, dtA, dtA, '<', '<', None)
    else:
        (src, mapping, W) = make_source(kind, total, dtA, dtB, '<', '<', wB)
    w = W(src, mapping, from_idx=frm, to_idx=None if to_none else to)
    eff_to = total if to_none else to
    if w.n_rows != eff_to - frm:
        return 1
    chunk = w.load_chunk(start, None if stop_none else stop)
    eff_stop = (eff_to - frm) if stop_none else stop
    if not chunk_rows_ok(chunk, eff_stop - start, frm + start):
        return 2
    # slot order and element dtypes follow the frame's channel list, not the source
    if kind == 5:
        dtB, wB = dtA, None
    if chunk.dtype[('A')].name != DT_NAMES[dtA] or chunk.dtype['B'].name != DT_NAMES[dtB] or chunk.dtype.width('B') != wB:
        return 3
    if kind == 3 and H5.opened[-1] != ('data.h5', 'r'):
        return 4
    for m in nps.MUTATIONS:
        if m[1] == 'caller':
            return 5
    return 0


KINDS = 5            # dict, structured (copy path), structured (fast path), HDF5, structured with permuted fields


def ob_window(kind: int, total: int, frm: int, to: int, to_none: bool, start: int, stop: int, stop_none: bool) -> int:
    """
    For each source kind: n_rows is the window length and a chunk shows exactly source rows [from+start, from+stop)
    of every channel, in the frame's channel order.
    pre: 0 <= kind < WKINDS and kind % SHARD_N == SHARD_I % WKINDS
    pre: 1 <= total <= TOTAL_MAX
    pre: 0 <= frm < to <= total
    pre: 0 <= start <= stop <= (total if to_none else to) - frm
    post: _ == 0
    """
    return window_check(kind, total, frm, to, to_none, start, stop, stop_none, 2, 7, 3)


def reach_window(kind: int, total: int, frm: int, to: int, to_none: bool, start: int, stop: int, stop_none: bool) -> int:
    """
    pre: 0 <= kind < WKINDS
    pre: 1 <= total <= TOTAL_MAX
    pre: 0 <= frm < to <= total
    pre: 0 <= start <= stop <= (total if to_none else to) - frm
    post: _ != 0
    """
    return window_check(kind, total, frm, to, to_none, start, stop, stop_none, 2, 7, 3)


def wit_window_fast_path_offset(total: int, frm: int, to: int, start: int, stop: int) -> bool:
    """
    Fast path (structured array with the target dtype) with a window that does not start at row 0.
    pre: 2 <= total <= TOTAL_MAX and 1 <= frm < to <= total
    pre: 0 <= start < stop <= to - frm
    post: not _
    """
    return window_check(2, total, frm, to, False, start, stop, False, 2, 7, 3) == 0


def window_reject_check(kind, total, frm, to, to_none):
    """A window is usable iff 0 <= from < to <= rows (to omitted = rows).  Any other window must be refused - when the
    wrapper is built or at the latest when its rows are loaded - never answered with rows that are not in the data."""
    nps.reset()
    (src, mapping, W) = make_source(kind, total, 2, 7, '<', '<', None)
    eff_to = total if to_none else to
    want = 0 <= frm < eff_to <= total
    try:
        w = W(src, mapping, from_idx=frm, to_idx=None if to_none else to)
    except ValueError:
        return 0 if not want else 1
    try:
        chunk = w.load_chunk(0, None)
    except ValueError:
        return 0 if not want else 2
    if not want:
        return 3                           # rows were produced for a window that is not inside the data
    if not chunk_rows_ok(chunk, eff_to - frm, frm):
        return 4
    return 0


def ob_window_reject(kind: int, total: int, frm: int, to: int, to_none: bool) -> int:
    """
    pre: 0 <= kind < KINDS
    pre: 1 <= total <= TOTAL_MAX and -5 <= frm <= TOTAL_MAX + 5 and -5 <= to <= TOTAL_MAX + 5
    post: _ == 0
    """
    return window_reject_check(kind, total, frm, to, to_none)


def reach_window_reject(kind: int, total: int, frm: int, to: int, to_none: bool) -> int:
    """
    pre: 0 <= kind < KINDS
    pre: 1 <= total <= TOTAL_MAX and -5 <= frm <= TOTAL_MAX + 5 and -5 <= to <= TOTAL_MAX + 5
    post: _ != 0
    """
    return window_reject_check(kind, total, frm, to, to_none)


# --------------------------------------------------------------------------- chunked iteration / frame numbering

ROWS_MAX = 40 if THOROUGH else 6


def _frame(origin=2):
    with untraced():
        reset_global_state()
        ca = ChannelItem('A', ChannelSet(), origin_reference=2)
        cb = ChannelItem('B', ca.parent, origin_reference=2)
        fr = FrameItem('FR', FrameSet(), channels=(ca, cb), origin_reference=2)
    for it in (ca, cb, fr):
        object.__setattr__(it, '_origin_reference', origin)      # possibly symbolic: set while tracing
    return fr, ca, cb


def iteration_check(kind, total, frm, n, chunk, chunk_none):
    """MultiFrameData over a window of n rows with input chunk size `chunk` (or None)."""
    nps.reset()
    (src, mapping, W) = make_source(kind, total, 2, 7, '<', '<', 3)
    w = W(src, mapping, from_idx=frm, to_idx=frm + n)
    (fr, ca, cb) = _frame()
    mfd = MultiFrameData(fr, w, chunk_size=None if chunk_none else chunk)
    if len(mfd) != n:
        return 1
    recs = list(mfd)
    if len(recs) != n:
        return 2
    for k in range(n):
        fd = recs[k]
        if not isinstance(fd, FrameData) or fd._frame is not fr or fd._frame_number != k + 1:
            return 3
        row = fd._slots
        if not isinstance(row, nps.Row):
            return 4
        fa, fb = row.arr.fields['A'], row.arr.fields['B']
        if fa.zero or fb.zero or fa.bcast or fb.bcast or fa.column != 'colA' or fb.column != 'colB':
            return 5
        if fa.a + row.i != frm + k or fb.a + row.i != frm + k:
            return 6                       # record k carries source row from_idx + k
    # a second iteration restarts numbering (one MultiFrameData per write)
    recs2 = list(mfd)
    if len(recs2) != n or recs2[0]._frame_number != 1:
        return 7
    return 0


def ob_iteration(kind: int, total: int, frm: int, n: int, chunk: int, chunk_none: bool) -> int:
    """
    pre: 0 <= kind < KINDS and kind % SHARD_N == SHARD_I % KINDS
    pre: 1 <= n <= ROWS_MAX and 0 <= frm and frm + n <= total <= TOTAL_MAX
    pre: 1 <= chunk <= n + 2
    post: _ == 0
    """
    return iteration_check(kind, total, frm, n, chunk, chunk_none)


def reach_iteration(kind: int, total: int, frm: int, n: int, chunk: int, chunk_none: bool) -> int:
    """
    pre: 0 <= kind < KINDS
    pre: 1 <= n <= ROWS_MAX and 0 <= frm and frm + n <= total <= TOTAL_MAX
    pre: 1 <= chunk <= n + 2
    post: _ != 0
    """
    return iteration_check(kind, total, frm, n, chunk, chunk_none)


class CountingWrapper(SourceDataWrapper):
    """A SourceDataWrapper whose load_chunk only records the requested ranges (tiling obligation)."""

    def __init__(self, n):
        self._n_rows = n
        self.calls = []

    def load_chunk(self, start, stop):
        self.calls.append((start, stop))
        return []


TILE_MAX = 1000000 if THOROUGH else 40


def tiling_check(n, c, c_none):
    w = CountingWrapper(n)
    list(w.make_chunked_generator(None if c_none else c))
    pos = 0
    for (a, b) in w.calls:
        if a != pos:
            return 1
        e = n if b is None else b
        if e <= a or e > n:
            return 2
        if not c_none and e - a > c:
            return 3
        pos = e
    if pos != n:
        return 4
    return 0


def ob_tiling(n: int, c: int, c_none: bool) -> int:
    """
    make_chunked_generator requests ranges that tile [0, n_rows) exactly once, in order, none longer than the chunk size.
    pre: 1 <= n <= TILE_MAX and 1 <= c <= TILE_MAX + 20
    pre: n // c <= 6
    post: _ == 0
    """
    return tiling_check(n, c, c_none)


def reach_tiling(n: int, c: int, c_none: bool) -> int:
    """
    pre: 1 <= n <= TILE_MAX and 1 <= c <= TILE_MAX + 20
    pre: n // c <= 6
    post: _ != 0
    """
    return tiling_check(n, c, c_none)


# a chunk size that is no positive integer (round 6): refused, or the rows are still all there - never dropped silently

def tiling_nonpos_check(n, c):
    """The real wrapper (dict source over the numpy stub, real load_chunk with its own range checks) asked for chunks of
    c <= 0 rows: refused, or every row 0..n-1 comes out once, in order."""
    nps.reset()
    (src, mapping, W) = make_source(0, n, 2, 7, '<', '<', 3)
    w = W(src, mapping)
    try:
        rows = list(w.make_chunked_generator(c))
    except (ValueError, ZeroDivisionError, TypeError, RuntimeError, IndexError):
        return 0                                  # refused: fail-closed
    if len(rows) != n:
        return 4                                  # accepted, and rows are missing (or repeated)
    for k in range(n):
        r = rows[k]
        f = r.arr.fields['A']
        if f.column != 'colA' or f.a + r.i != k:
            return 1
    return 0


def ob_tiling_nonpos(n: int, c: int) -> int:
    """
    pre: 1 <= n <= 40 and -60 <= c <= 0
    post: _ == 0
    """
    return tiling_nonpos_check(n, c)


def reach_tiling_nonpos(n: int, c: int) -> int:
    """
    pre: 1 <= n <= 40 and -60 <= c <= 0
    post: _ != 0
    """
    return tiling_nonpos_check(n, c)


# ----------------------------------------------------------------------------------------- frame-data record body

def fdata_body_check(kind, frame_number, dtA, dtB, ordA, ordB, wB, origin):
    """Body = frame OBNAME || UVARI(frame number) || slots in channel order, each itemsize x width bytes, most
    significant byte first whatever the source byte order."""
    nps.reset()
    (src, mapping, W) = make_source(kind, 5, dtA, dtB, '>' if ordA else '<', '>' if ordB else '<', wB if wB > 0 else None)
    w = W(src, mapping)
    (fr, ca, cb) = _frame(origin)
    chunk = w.load_chunk(2, 3)
    row = list(chunk)[0]
    fd = FrameData(fr, frame_number, row, origin_reference=origin)
    f = flat(fd._make_body_bytes())
    pre = uvari_expect(origin) + [0, 2, 70, 82] + uvari_expect(frame_number)       # OBNAME (origin, 0, 'FR') + number
    k = len(pre)
    if len(f) != k + 2:
        return 1
    for i in range(k):
        if f[i] != ('b', pre[i]):
            return 2
    sa, sb = f[k], f[k + 1]
    wa = DT_SIZE[dtA]
    wb = DT_SIZE[dtB] * (wB if wB > 0 else 1)
    if sa != ('src', 'colA|' + DT_NAMES[dtA] + '|>', 2 * wa, 3 * wa):
        return 3
    if sb != ('src', 'colB|' + DT_NAMES[dtB] + '|>', 2 * wb, 3 * wb):
        return 4
    lrb = fd.represent_as_bytes()
    if lrb._is_eflr or lits(lrb._lr_type_struct) != [0]:
        return 5
    for m in nps.MUTATIONS:
        if m[1] == 'caller':
            return 6
    return 0


def ob_fdata_body(kind: int, frame_number: int, dtB: int, ordA: bool, ordB: bool, wB: int) -> int:
    """
    Channel A (scalar) takes the dtype (dtB + 3) mod 8, channel B dtype dtB with width wB (0 = scalar); both byte orders.
    pre: 0 <= kind < KINDS and kind % SHARD_N == SHARD_I % KINDS
    pre: 1 <= frame_number < 1073741824
    pre: 0 <= dtB < 8 and 0 <= wB <= 4096
    post: _ == 0
    """
    return fdata_body_check(kind, frame_number, (dtB + 3) % 8, dtB, ordA, ordB, wB, 5)


def reach_fdata_body(kind: int, frame_number: int, dtB: int, ordA: bool, ordB: bool, wB: int) -> int:
    """
    pre: 0 <= kind < KINDS
    pre: 1 <= frame_number < 1073741824
    pre: 0 <= dtB < 8 and 0 <= wB <= 4096
    post: _ != 0
    """
    return fdata_body_check(kind, frame_number, (dtB + 3) % 8, dtB, ordA, ordB, wB, 5)


def fdata_cast_check(kind, dtB, castB, ordB, ordC, wB):
    """As fdata_body_check, with a cast dtype on channel B given WITH a byte order (np.dtype('>f4'), '<i2', native):
    the slot holds the cast values, most significant byte first, whatever the byte orders of source and cast dtype."""
    nps.reset()
    (src, mapping, W) = make_source(kind, 5, 2, dtB, '<', '>' if ordB else '<', wB if wB > 0 else None)
    known = {'B': nps.SDtype(DT_NAMES[castB], '>' if ordC else '<')}
    w = W(src, mapping, known_dtypes=known)
    (fr, ca, cb) = _frame(5)
    chunk = w.load_chunk(2, 3)
    row = list(chunk)[0]
    fd = FrameData(fr, 1, row, origin_reference=5)
    f = flat(fd._make_body_bytes())
    k = len(uvari_expect(5)) + 4 + 1
    if len(f) != k + 2:
        return 1
    sa, sb = f[k], f[k + 1]
    wa = DT_SIZE[2]
    wb = DT_SIZE[castB] * (wB if wB > 0 else 1)
    if sa != ('src', 'colA|' + DT_NAMES[2] + '|>', 2 * wa, 3 * wa):
        return 3
    if sb != ('src', 'colB|' + DT_NAMES[castB] + '|>', 2 * wb, 3 * wb):
        return 4
    for m in nps.MUTATIONS:
        if m[1] == 'caller':
            return 6
    return 0


def ob_fdata_cast(kind: int, dtB: int, castB: int, ordB: bool, ordC: bool, wB: int) -> int:
    """
    pre: 0 <= kind < KINDS and kind % SHARD_N == SHARD_I % KINDS
    pre: 0 <= dtB < 8 and 0 <= castB < 8 and 0 <= wB <= 4096
    post: _ == 0
    """
    return fdata_cast_check(kind, dtB, castB, ordB, ordC, wB)


def reach_fdata_cast(kind: int, dtB: int, castB: int, ordB: bool, ordC: bool, wB: int) -> int:
    """
    pre: 0 <= kind < KINDS
    pre: 0 <= dtB < 8 and 0 <= castB < 8 and 0 <= wB <= 4096
    post: _ != 0
    """
    return fdata_cast_check(kind, dtB, castB, ordB, ordC, wB)


def wit_fdata_bigendian_2d(kind: int, dtB: int, wB: int) -> bool:
    """
    A big-endian source feeding a 2-D channel is written most significant byte first.
    pre: 0 <= kind < KINDS and 0 <= dtB < 8 and 1 <= wB <= 64
    post: not _
    """
    return fdata_body_check(kind, 1, 2, dtB, False, True, wB, 1) == 0


# ------------------------------------------------------------------------------------------ channel descriptors

def descriptors_check(kind, dtB, wB, cast, castdt, dim_given, dim, lim_given, lim):
    """After setup_from_data the channel's representation code is that of the dtype written (the cast dtype if any),
    DIMENSION is the per-row shape ([1] for scalars), ELEMENT-LIMIT bounds it; inconsistent user values raise."""
    nps.reset()
    (src, mapping, W) = make_source(kind, 5, 2, dtB, '<', '<', wB if wB > 0 else None)
    (fr, ca, cb) = _frame()
    if cast:
        cb.cast_dtype = getattr(nps, DT_NAMES[castdt])
    if dim_given:
        cb.dimension.value = [dim]
    if lim_given:
        cb.element_limit.value = [lim]
    w = W(src, mapping, known_dtypes=fr.known_channel_dtypes_mapping)
    shape = wB if wB > 0 else 1
    consistent = (not dim_given or dim == shape) and (not lim_given or lim >= shape)
    try:
        fr.setup_from_data(w)              # the route a write takes: every channel of the frame, then the frame itself
        cb._run_checks_and_set_defaults()
    except RuntimeError:
        return 0 if not consistent else 1
    if not consistent:
        return 2
    if cb.dimension.value != [shape]:
        return 3
    el = cb.element_limit.value
    if el is None or len(el) != 1 or el[0] < shape:
        return 4
    if lim_given and el != [lim]:
        return 8                           # a consistent element limit supplied by the user is written unchanged
    want_code = DT_CODE[castdt] if cast else DT_CODE[dtB]
    if cb.representation_code.value is None or cb.representation_code.value.value != want_code:
        return 5
    # the dtype of the chunk field (what is written) agrees with the declared code
    chunk = w.load_chunk(0, 1)
    if chunk.dtype['B'].name != (DT_NAMES[castdt] if cast else DT_NAMES[dtB]):
        return 6
    if chunk.dtype.width('B') != (wB if wB > 0 else None):
        return 7
    return 0


def ob_descriptors(kind: int, dt: int, wB: int, cast: bool, dim_given: bool, dim: int, lim_given: bool, lim: int) -> int:
    """
    dt is the source dtype (no cast) or the cast dtype (source int32 / float64).
    pre: 0 <= kind < KINDS and kind % SHARD_N == SHARD_I % KINDS
    pre: 0 <= dt < 8 and 0 <= wB <= 1048576
    pre: 1 <= dim <= 1048576 and 1 <= lim <= 1048576
    post: _ == 0
    """
    return descriptors_check(kind, (2 if dt != 2 else 7) if cast else dt, wB, cast, dt, dim_given, dim, lim_given, lim)


def reach_descriptors(kind: int, dt: int, wB: int, cast: bool, dim_given: bool, dim: int, lim_given: bool, lim: int) -> int:
    """
    pre: 0 <= kind < KINDS
    pre: 0 <= dt < 8 and 0 <= wB <= 1048576
    pre: 1 <= dim <= 1048576 and 1 <= lim <= 1048576
    post: _ != 0
    """
    return descriptors_check(kind, (2 if dt != 2 else 7) if cast else dt, wB, cast, dt, dim_given, dim, lim_given, lim)


# ------------------------------------------------------------------------------------------------- fail-closed

def rowcount_check(kind, nA, nB, first_is_a):
    """Two datasets with different row counts must be refused (at construction or when the data is loaded)."""
    nps.reset()
    a = col('colA', nA, 2, '<', None)
    b = col('colB', nB, 7, '<', None)
    if kind == 0:
        src = {'dsA': a, 'dsB': b}
        W = DictDataWrapper
    else:
        H5.files['data.h5'] = nps.FakeH5File({'/dsA': a, '/dsB': b})
        src = 'data.h5'
        W = HDF5DataWrapper
    mapping = {'A': 'dsA', 'B': 'dsB'} if first_is_a else {'B': 'dsB', 'A': 'dsA'}
    try:
        w = W(src, mapping)
        w.load_chunk(0, None)
    except ValueError:
        return 0
    return 1


def ob_rowcount(kind: int, first: int, other: int, first_is_a: bool) -> int:
    """
    first / other: row counts of the first mapped dataset and of the other one.  Known finding F15 (a longer second
    dataset is truncated, a one-row one broadcast) is excluded here and decided by kf_rowcount.
    pre: 0 <= kind <= 1
    pre: 1 <= first <= 50 and 1 <= other <= 50 and first != other
    pre: not (other > first or other == 1)
    post: _ == 0
    """
    return rowcount_check(kind, first if first_is_a else other, other if first_is_a else first, first_is_a)


def reach_rowcount(kind: int, first: int, other: int, first_is_a: bool) -> int:
    """
    pre: 0 <= kind <= 1
    pre: 1 <= first <= 50 and 1 <= other <= 50 and first != other
    pre: not (other > first or other == 1)
    post: _ != 0
    """
    return rowcount_check(kind, first if first_is_a else other, other if first_is_a else first, first_is_a)


def kf_rowcount(kind: int, first: int, other: int, first_is_a: bool) -> int:
    """
    pre: 0 <= kind <= 1
    pre: 1 <= first <= 50 and 1 <= other <= 50 and first != other
    pre: other > first or other == 1
    post: _ == 0
    """
    return rowcount_check(kind, first if first_is_a else other, other if first_is_a else first, first_is_a)


def bad_source_check(what, kind):
    """Unsupported dtype, more than two dimensions, a missing dataset: ValueError / RuntimeError, never a wrapper."""
    nps.reset()
    a = col('colA', 5, 2, '<', None)
    if what == 0:
        b = nps.ndarray('caller', 'colB', 0, 5, nps.SDtype('int64' if kind else 'float16'), None)
    elif what == 1:
        b = nps.ndarray('caller', 'colB', 0, 5, nps.SDtype('float64'), 3, extra_dims=1)
    else:
        b = None
    src = {'dsA': a}
    if b is not None:
        src['dsB'] = b
    try:
        DictDataWrapper(src, {'A': 'dsA', 'B': 'dsB'})
    except (ValueError, RuntimeError):
        return 0
    return 1


def ob_bad_source(what: int, kind: bool) -> int:
    """
    pre: 0 <= what <= 2
    post: _ == 0
    """
    return bad_source_check(what, kind)


def reach_bad_source(what: int, kind: bool) -> int:
    """
    pre: 0 <= what <= 2
    post: _ != 0
    """
    return bad_source_check(what, kind)


# ---------------------------------------------------------------------- caller's data / merged data / two frames

def data_dict_check(pass_b, pass_extra, overlap_a, n):
    """LogicalFile._make_multi_frame_data with inline data for channel A and passed data for channel B:
    the dict passed keeps its keys and value objects, the logical file's own data dict is what it was before the call
    (nothing passed to one write is remembered for the next), and nothing owned by the caller is mutated."""
    nps.reset()
    df, (lf,) = new_file(1)
    add_origin(lf, 'O')
    inline = col('colA', n, 2, '<', None)
    ca = lf.add_channel('A', data=inline)
    cb = lf.add_channel('B')
    fr = lf.add_frame('FR', channels=(ca, cb))
    arr_b = col('colB', n, 7, '<', 3)
    arr_x = col('colX', n, 7, '<', None)
    arr_a2 = col('colA2', n, 2, '<', None)
    passed = {}
    if pass_b:
        passed['B'] = arr_b
    if pass_extra:
        passed['extra'] = arr_x
    if overlap_a:
        passed['A'] = arr_a2
    before_keys = list(passed.keys())
    before_vals = [passed[k] for k in before_keys]
    own_before = dict(lf._data_dict)
    try:
        mfd = lf._make_multi_frame_data(fr, data=passed)
    except ValueError:
        if pass_b:
            return 1
        mfd = None
    else:
        if not pass_b:
            return 2                       # channel B has no data: must be refused
    if list(passed.keys()) != before_keys:
        return 3
    for k in range(len(before_keys)):
        if passed[before_keys[k]] is not before_vals[k]:
            return 4
    if list(lf._data_dict.keys()) != list(own_before.keys()):
        return 5                           # merged data leaked into the specification
    for k in own_before:
        if lf._data_dict[k] is not own_before[k]:
            return 5
    if mfd is not None:
        recs = list(mfd)
        if len(recs) != n:
            return 6
        row = recs[0]._slots
        want_a = 'colA2' if overlap_a else 'colA'
        if row.arr.fields['A'].column != want_a or row.arr.fields['B'].column != 'colB':
            return 7
        recs[0]._make_body_bytes()
    for m in nps.MUTATIONS:
        if m[1] == 'caller':
            return 8
    return 0


def ob_data_dict(pass_b: bool, pass_extra: bool, overlap_a: bool, n: int) -> int:
    """
    pre: 1 <= n <= 4
    post: _ == 0
    """
    return data_dict_check(pass_b, pass_extra, overlap_a, n)


def reach_data_dict(pass_b: bool, pass_extra: bool, overlap_a: bool, n: int) -> int:
    """
    pre: 1 <= n <= 4
    post: _ != 0
    """
    return data_dict_check(pass_b, pass_extra, overlap_a, n)


def taint_check(kind, n, chunk, cast, big):
    """Whole Python-level data path for one source kind: wrapper -> chunks -> FrameData bodies.  No in-place operation
    reaches caller-owned memory (or a view of it)."""
    nps.reset()
    (src, mapping, W) = make_source(kind, n + 2, 2, 7, '>' if big else '<', '>' if big else '<', 3)
    (fr, ca, cb) = _frame()
    # cast: 0 none, 1 float64 -> float32, 2 float64 -> int32, 3 float64 -> uint8
    known = {} if not cast else {'B': [None, nps.float32, nps.int32, nps.uint8][cast]}
    w = W(src, mapping, known_dtypes=known, from_idx=1, to_idx=n + 1)
    for fd in MultiFrameData(fr, w, chunk_size=chunk):
        fd._make_body_bytes()
    for m in nps.MUTATIONS:
        if m[1] == 'caller':
            return 1
    return 0


def ob_taint(kind: int, n: int, chunk: int, cast: int, big: bool) -> int:
    """
    pre: 0 <= kind < KINDS
    pre: 1 <= n <= 3 and 1 <= chunk <= 4 and 0 <= cast <= 3
    post: _ == 0
    """
    return taint_check(kind, n, chunk, cast, big)


def reach_taint(kind: int, n: int, chunk: int, cast: int, big: bool) -> int:
    """
    pre: 0 <= kind < KINDS
    pre: 1 <= n <= 3 and 1 <= chunk <= 4 and 0 <= cast <= 3
    post: _ != 0
    """
    return taint_check(kind, n, chunk, cast, big)


def two_frames_check(n1, n2, c1, c2):
    """Two frames with different row counts: independent numbering from 1, each record references its own frame and
    carries its own channels' rows."""
    nps.reset()
    with untraced():
        reset_global_state()
        cs = ChannelSet()
        a1, b1 = ChannelItem('A', cs, origin_reference=1), ChannelItem('B', cs, origin_reference=1)
        a2, b2 = ChannelItem('P', cs, origin_reference=1), ChannelItem('Q', cs, origin_reference=1)
        fs = FrameSet()
        f1 = FrameItem('F1', fs, channels=(a1, b1), origin_reference=1)
        f2 = FrameItem('F2', fs, channels=(a2, b2), origin_reference=1)
    src = {'A': col('colA', n1, 2, '<', None), 'B': col('colB', n1, 7, '<', 3),
           'P': col('colP', n2, 2, '<', None), 'Q': col('colQ', n2, 7, '<', None)}
    w1 = DictDataWrapper(src, f1.channel_name_mapping)
    w2 = DictDataWrapper(src, f2.channel_name_mapping)
    m1 = MultiFrameData(f1, w1, chunk_size=c1)
    m2 = MultiFrameData(f2, w2, chunk_size=c2)
    r1, r2 = list(m1), list(m2)
    if len(r1) != n1 or len(r2) != n2 or len(m1) != n1 or len(m2) != n2:
        return 1
    for k in range(n1):
        if r1[k]._frame is not f1 or r1[k]._frame_number != k + 1:
            return 2
        fl = r1[k]._slots.arr.fields
        if list(fl.keys()) != ['A', 'B'] or fl['A'].column != 'colA' or fl['B'].column != 'colB':
            return 3
    for k in range(n2):
        if r2[k]._frame is not f2 or r2[k]._frame_number != k + 1:
            return 4
        fl = r2[k]._slots.arr.fields
        if list(fl.keys()) != ['P', 'Q'] or fl['P'].column != 'colP' or fl['Q'].column != 'colQ':
            return 5
    return 0


REJECT = (ValueError, RuntimeError, TypeError, KeyError)


def dup_names_check(mode, n, chunk):
    """A frame whose channel list repeats a name (two copies of X, or the same channel twice): the data columns are
    keyed by channel name, so such a frame cannot be laid out - it is refused (add_frame or the data set-up raises),
    or else every record has one slot per listed channel.  mode 2 is the control (distinct names: accepted)."""
    nps.reset()
    df, (lf,) = new_file(1)
    add_origin(lf, 'O')
    i = lf.add_channel('I', data=col('colI', n, 7, '<', None))
    x0 = lf.add_channel('X', data=col('colX0', n, 2, '<', None))
    x1 = lf.add_channel('X' if mode != 2 else 'Y', data=col('colX1', n, 2, '<', None))
    chans = (i, x0, x0) if mode == 1 else (i, x0, x1)
    try:
        fr = lf.add_frame('F', channels=chans)
        mfd = lf._make_multi_frame_data(fr, chunk_size=chunk)
        recs = list(mfd)
    except REJECT:
        return 1 if mode == 2 else 0
    if len(recs) != n:
        return 2
    for r in recs:
        if len(r._slots.arr.fields) != len(chans):
            return 3                       # fewer slots than the frame lists channels: the file cannot be sliced
    return 0


def ob_dup_names(mode: int, n: int, chunk: int) -> int:
    """
    pre: 0 <= mode <= 2 and 1 <= n <= 3 and 1 <= chunk <= 3
    post: _ == 0
    """
    return dup_names_check(mode, n, chunk)


def reach_dup_names(mode: int, n: int, chunk: int) -> int:
    """
    pre: 0 <= mode <= 2 and 1 <= n <= 3 and 1 <= chunk <= 3
    post: _ != 0
    """
    return dup_names_check(mode, n, chunk)


def remap_check(n, chunk, how, kind):
    """The records of a frame are generated once (a first write); then a channel is pointed at another data set
    (dataset_name re-assigned) or replaced in the frame by another channel of the same name reading another data set;
    the records generated next carry the rows of the data set the channel names NOW."""
    nps.reset()
    df, (lf,) = new_file(1)
    add_origin(lf, 'O')
    a = lf.add_channel('A', dataset_name='dsA')
    b = lf.add_channel('B', dataset_name='dsB')
    fr = lf.add_frame('F', channels=(a, b))
    ca, cb, cc = col('colA', n, 2, '<', None), col('colB', n, 7, '<', None), col('colC', n, 2, '<', None)
    if kind == 0:
        src = {'dsA': ca, 'dsB': cb, 'dsC': cc}
    else:
        sdt = nps.StructDtype([('dsA', ca.dtype), ('dsB', cb.dtype), ('dsC', cc.dtype)])
        f = {'dsA': nps.Field('caller', 'colA', 0, ca.dtype, None), 'dsB': nps.Field('caller', 'colB', 0, cb.dtype, None),
             'dsC': nps.Field('caller', 'colC', 0, cc.dtype, None)}
        src = nps.structarr('caller', n, sdt, f)
    first = list(lf._make_multi_frame_data(fr, chunk_size=chunk, data=src))
    if len(first) != n or first[0]._slots.arr.fields['A'].column != 'colA':
        return 1
    if how == 0:
        a.dataset_name = 'dsC'
    else:
        a2 = lf.add_channel('A', dataset_name='dsC')
        fr.channels.value = [a2, b]
    second = list(lf._make_multi_frame_data(fr, chunk_size=chunk, data=src))
    if len(second) != n:
        return 2
    for r in second:
        fl = r._slots.arr.fields
        if list(fl.keys()) != ['A', 'B'] or fl['A'].column != 'colC' or fl['B'].column != 'colB':
            return 3
    return 0


def ob_remap(n: int, chunk: int, how: int, kind: int) -> int:
    """
    pre: 1 <= n <= 3 and 1 <= chunk <= 3 and 0 <= how <= 1 and 0 <= kind <= 1
    post: _ == 0
    """
    return remap_check(n, chunk, how, kind)


def reach_remap(n: int, chunk: int, how: int, kind: int) -> int:
    """
    pre: 1 <= n <= 3 and 1 <= chunk <= 3 and 0 <= how <= 1 and 0 <= kind <= 1
    post: _ != 0
    """
    return remap_check(n, chunk, how, kind)


def second_dtype_check(dt1, dt2, n, cast):
    """The same specification written twice with data of different dtypes (channel without / with an explicit cast):
    after the second set-up the representation code the channel declares is that of the dtype of the slots actually
    generated, and the rows are those of the second data."""
    nps.reset()
    df, (lf,) = new_file(1)
    add_origin(lf, 'O')
    a = lf.add_channel('A', cast_dtype=getattr(nps, DT_NAMES[7]) if cast else None)
    fr = lf.add_frame('F', channels=(a,))
    src1 = {'A': col('colA1', n, dt1, '<', None)}
    src2 = {'A': col('colA2', n, dt2, '<', None)}
    try:
        list(lf._make_multi_frame_data(fr, chunk_size=None, data=src1))
        recs = list(lf._make_multi_frame_data(fr, chunk_size=None, data=src2))
    except REJECT:
        return 0
    if len(recs) != n:
        return 1
    code = a.representation_code.value
    if code is None:
        return 2
    for r in recs:
        f = r._slots.arr.fields['A']
        if f.column != 'colA2':
            return 3
        if DT_CODE[DT_NAMES.index(f.dt.name)] != code.value:
            return 4                       # declared as one type, slot bytes of another
    return 0


def ob_second_dtype(dt1: int, dt2: int, n: int, cast: bool) -> int:
    """
    pre: 0 <= dt1 < 8 and 0 <= dt2 < 8 and 1 <= n <= 2 and dt1 % SHARD_N == SHARD_I % 8
    post: _ == 0
    """
    return second_dtype_check(dt1, dt2, n, cast)


def reach_second_dtype(dt1: int, dt2: int, n: int, cast: bool) -> int:
    """
    pre: 0 <= dt1 < 8 and 0 <= dt2 < 8 and 1 <= n <= 2
    post: _ != 0
    """
    return second_dtype_check(dt1, dt2, n, cast)


def ob_two_frames(n1: int, n2: int, c1: int, c2: int) -> int:
    """
    pre: 1 <= n1 <= 4 and 1 <= n2 <= 4 and 1 <= c1 <= 5 and 1 <= c2 <= 5
    post: _ == 0
    """
    return two_frames_check(n1, n2, c1, c2)


def reach_two_frames(n1: int, n2: int, c1: int, c2: int) -> int:
    """
    pre: 1 <= n1 <= 4 and 1 <= n2 <= 4 and 1 <= c1 <= 5 and 1 <= c2 <= 5
    post: _ != 0
    """
    return two_frames_check(n1, n2, c1, c2)


def two_files_data_check(n1, n2, pass_dict, same_names):
    """Two logical files (own set names) whose channels carry inline data under the same dataset names; one dict is
    passed as data for the whole write (as DLISFile.generate_logical_records does: the same object for every frame).
    Each file's records must carry its own arrays and its own row count."""
    nps.reset()
    df, (lf1, lf2) = new_file(2)
    add_origin(lf1, 'O1', set_name='S1')
    add_origin(lf2, 'O2', set_name='S2')
    c1 = lf1.add_channel('A', data=col('colA1', n1, 2, '<', None), set_name='S1')
    c2 = lf2.add_channel('A' if same_names else 'B', data=col('colA2', n2, 2, '<', None), set_name='S2')
    f1 = lf1.add_frame('F1', channels=(c1,), set_name='S1')
    f2 = lf2.add_frame('F2', channels=(c2,), set_name='S2')
    shared = {} if pass_dict else None
    m1 = lf1._make_multi_frame_data(f1, data=shared)
    m2 = lf2._make_multi_frame_data(f2, data=shared)
    r1, r2 = list(m1), list(m2)
    if len(r1) != n1 or len(r2) != n2:
        return 1
    nm2 = 'A' if same_names else 'B'
    for k in range(n1):
        if r1[k]._slots.arr.fields['A'].column != 'colA1' or r1[k]._frame is not f1 or r1[k]._frame_number != k + 1:
            return 2
    for k in range(n2):
        if r2[k]._slots.arr.fields[nm2].column != 'colA2' or r2[k]._frame is not f2 or r2[k]._frame_number != k + 1:
            return 3
    if pass_dict and len(shared) != 0:
        return 4                           # the caller's dict was written to
    return 0


def ob_two_files_data(n1: int, n2: int, pass_dict: bool, same_names: bool) -> int:
    """
    pre: 1 <= n1 <= 4 and 1 <= n2 <= 4
    post: _ == 0
    """
    return two_files_data_check(n1, n2, pass_dict, same_names)


def reach_two_files_data(n1: int, n2: int, pass_dict: bool, same_names: bool) -> int:
    """
    pre: 1 <= n1 <= 4 and 1 <= n2 <= 4
    post: _ != 0
    """
    return two_files_data_check(n1, n2, pass_dict, same_names)


# boundary windows of the frame number (decided by enumeration: an inlined encoder with bit operators or bytes() makes
# the symbolic obligation above inconclusive rather than violated)
try:
    from crosshair import realize
except ImportError:
    def realize(x):
        return x

FN_EDGES = [1, 127, 128, 255, 256, 16383, 16384, 65535, 65536, 1073741823]
N_FN_EDGES = len(FN_EDGES)


def ob_fdata_number_edges(k: int, d: int, kind: int) -> int:
    """
    pre: 0 <= k < N_FN_EDGES and -1 <= d <= 1 and 0 <= kind < KINDS
    pre: FN_EDGES[k] + d >= 1 and FN_EDGES[k] + d < 1073741824
    post: _ == 0
    """
    return fdata_body_check(realize(kind), realize(FN_EDGES[k] + d), 4, 7, False, False, 3, 5)



def generate_two_files_check(n1, n2, chunk, same_names):
    """DLISFile.generate_logical_records over two logical files (own set names, inline data): the records yielded for
    each logical file (from its header to the next header) contain exactly its own frame's FrameData, n_i of them,
    numbered from 1, and no set of the other file."""
    nps.reset()
    df, (lf1, lf2) = new_file(2)
    add_origin(lf1, 'O1', set_name='S1')
    add_origin(lf2, 'O2', set_name='S2')
    c1 = lf1.add_channel('A', data=col('colA1', n1, 2, '<', None), set_name='S1')
    c2 = lf2.add_channel('A' if same_names else 'B', data=col('colA2', n2, 2, '<', None), set_name='S2')
    f1 = lf1.add_frame('F1', channels=(c1,), set_name='S1')
    f2 = lf2.add_frame('F2', channels=(c2,), set_name='S2')
    recs = list(df.generate_logical_records(chunk_size=chunk))
    per = []
    for r in recs:
        if getattr(r, 'set_type', None) == 'FILE-HEADER':
            per.append([])
        elif not per:
            return 1
        else:
            per[-1].append(r)
    if len(per) != 2:
        return 2
    frames = [f1, f2]
    counts = [n1, n2]
    own_sets = ['S1', 'S2']
    for i in range(2):
        k = 0
        for r in per[i]:
            if isinstance(r, FrameData):
                k = k + 1
                if r._frame is not frames[i] or r._frame_number != k:
                    return 3
            elif isinstance(getattr(r, 'set_type', None), str):
                if r.set_name != own_sets[i]:
                    return 4
        if k != counts[i]:
            return 5
    return 0


def ob_generate_two_files(n1: int, n2: int, chunk: int, same_names: bool) -> int:
    """
    pre: 1 <= n1 <= 3 and 1 <= n2 <= 3 and 1 <= chunk <= 4
    post: _ == 0
    """
    return generate_two_files_check(n1, n2, chunk, same_names)


def reach_generate_two_files(n1: int, n2: int, chunk: int, same_names: bool) -> int:
    """
    pre: 1 <= n1 <= 3 and 1 <= n2 <= 3 and 1 <= chunk <= 4
    post: _ != 0
    """
    return generate_two_files_check(n1, n2, chunk, same_names)


def declared_count_check(n1, n2, extra, nf, two):
    """The length DLISFile.generate_logical_records declares (the writer's progress maximum) is never smaller than
    the number of records it yields minus one (the largest value the bar is advanced to): the progress bar refuses values above its maximum whenever it gets to redraw,
    i.e. on slow (large) records, so an under-declared length makes a valid specification unwritable."""
    nps.reset()
    df, lfs = new_file(2 if two else 1)
    lf1 = lfs[0]
    add_origin(lf1, 'O1', set_name='S1')
    c1 = lf1.add_channel('A', data=col('colA1', n1, 2, '<', None), set_name='S1')
    lf1.add_frame('F1', channels=(c1,), set_name='S1')
    for k in range(extra):
        lf1.add_zone('Z' + str(k), set_name='S1')
    if two:
        lf2 = lfs[1]
        add_origin(lf2, 'O2', set_name='S2')
        c2 = lf2.add_channel('B', data=col('colA2', n2, 2, '<', None), set_name='S2')
        lf2.add_frame('F2', channels=(c2,), set_name='S2')
    last = lfs[-1]
    if nf > 0:
        nfo = last.add_no_format('N', set_name='S2' if two else 'S1')
        for k in range(nf):
            last.add_no_format_frame_data(nfo, 'ab')
    sized = df.generate_logical_records(chunk_size=None)
    declared = len(sized)
    k = 0
    for _r in sized:
        k = k + 1
    # the bar is advanced to i when record i + 1 is fetched: the largest value it sees is k - 1
    if declared < k - 1:
        return 1
    return 0


def ob_declared_count(n1: int, n2: int, extra: int, nf: int, two: bool) -> int:
    """
    pre: 1 <= n1 <= 3 and 1 <= n2 <= 3 and 0 <= extra <= 2 and 0 <= nf <= 2
    post: _ == 0
    """
    return declared_count_check(n1, n2, extra, nf, two)


def reach_declared_count(n1: int, n2: int, extra: int, nf: int, two: bool) -> int:
    """
    pre: 1 <= n1 <= 3 and 1 <= n2 <= 3 and 0 <= extra <= 2 and 0 <= nf <= 2
    post: _ != 0
    """
    return declared_count_check(n1, n2, extra, nf, two)


NAMES2 = ['A', 'B']
DSN = [None, 'A', 'B', 'A__1']


def dataset_names_check(a1, d1, a2, d2, a3, d3):
    """Three channels added one after another with symbolic names (A/B) and explicit dataset names (none/A/B/A__1): an
    explicit dataset name that is already taken is refused; otherwise all channels end up with distinct dataset names
    (so no two channels ever read the same data by accident), explicit names kept."""
    df, (lf,) = new_file(1)
    add_origin(lf, 'O')
    spec = [(NAMES2[a1], DSN[d1]), (NAMES2[a2], DSN[d2]), (NAMES2[a3], DSN[d3])]
    chans = []
    for (nm, ds) in spec:
        taken = [c.dataset_name for c in chans]
        try:
            c = lf.add_channel(nm, dataset_name=ds)
        except ValueError:
            if ds is not None and ds in taken:
                continue
            return 1
        if ds is not None:
            if ds in taken:
                return 2
            if c.dataset_name != ds:
                return 3
        chans.append(c)
    got = [c.dataset_name for c in chans]
    for i in range(len(got)):
        for j in range(i):
            if got[i] == got[j]:
                return 4
    return 0


def ob_dataset_names(a1: int, d1: int, a2: int, d2: int, a3: int, d3: int) -> int:
    """
    pre: 0 <= a1 <= 1 and 0 <= a2 <= 1 and 0 <= a3 <= 1 and 0 <= d1 <= 3 and 0 <= d2 <= 3 and 0 <= d3 <= 3
    pre: (a1 * 4 + d1) % SHARD_N == SHARD_I % 8
    post: _ == 0
    """
    return dataset_names_check(a1, d1, a2, d2, a3, d3)


def reach_dataset_names(a1: int, d1: int, a2: int, d2: int, a3: int, d3: int) -> int:
    """
    pre: 0 <= a1 <= 1 and 0 <= a2 <= 1 and 0 <= a3 <= 1 and 0 <= d1 <= 3 and 0 <= d2 <= 3 and 0 <= d3 <= 3
    post: _ != 0
    """
    return dataset_names_check(a1, d1, a2, d2, a3, d3)


SETN = [None, 'S']


def dataset_names_sets_check(a1, d1, s1, a2, d2, s2):
    """Two channels with symbolic names, explicit dataset names and channel-set names: the data dictionary is one per
    logical file, so dataset names are distinct across ALL channels of the file, whatever sets they sit in."""
    df, (lf,) = new_file(1)
    add_origin(lf, 'O')
    spec = [(NAMES2[a1], DSN[d1], SETN[s1]), (NAMES2[a2], DSN[d2], SETN[s2])]
    chans = []
    for (nm, ds, sn) in spec:
        taken = [c.dataset_name for c in chans]
        try:
            c = lf.add_channel(nm, dataset_name=ds, set_name=sn)
        except ValueError:
            if ds is not None and ds in taken:
                continue
            return 1
        if ds is not None:
            if ds in taken:
                return 2
            if c.dataset_name != ds:
                return 3
        chans.append(c)
    if len(chans) == 2 and chans[0].dataset_name == chans[1].dataset_name:
        return 4
    return 0


def ob_dataset_names_sets(a1: int, d1: int, s1: int, a2: int, d2: int, s2: int) -> int:
    """
    pre: 0 <= a1 <= 1 and 0 <= a2 <= 1 and 0 <= d1 <= 3 and 0 <= d2 <= 3 and 0 <= s1 <= 1 and 0 <= s2 <= 1
    post: _ == 0
    """
    return dataset_names_sets_check(a1, d1, s1, a2, d2, s2)


def reach_dataset_names_sets(a1: int, d1: int, s1: int, a2: int, d2: int, s2: int) -> int:
    """
    pre: 0 <= a1 <= 1 and 0 <= a2 <= 1 and 0 <= d1 <= 3 and 0 <= d2 <= 3 and 0 <= s1 <= 1 and 0 <= s2 <= 1
    post: _ != 0
    """
    return dataset_names_sets_check(a1, d1, s1, a2, d2, s2)


def check_data_check(dti, mode, wB):
    """LogicalFile._check_data: in the high-compatibility mode signed-integer channel data is refused (RuntimeError),
    outside the mode and for the other dtypes it is accepted."""
    nps.reset()
    (src, mapping, W) = make_source(0, 4, 7, dti, '<', '<', wB if wB > 0 else None)
    w = W(src, mapping)
    global_config.high_compat_mode = mode
    try:
        try:
            file_mod.LogicalFile._check_data(w)
        except RuntimeError:
            ok = False
        else:
            ok = True
    finally:
        global_config.high_compat_mode = False
    signed = DT_NAMES[dti] in ('int8', 'int16', 'int32')
    return 0 if ok == (not (mode and signed)) else 1


def ob_check_data(dti: int, mode: bool, wB: int) -> int:
    """
    pre: 0 <= dti < 8 and 0 <= wB <= 3
    post: _ == 0
    """
    return check_data_check(dti, mode, wB)


def reach_check_data(dti: int, mode: bool, wB: int) -> int:
    """
    pre: 0 <= dti < 8 and 0 <= wB <= 3
    post: _ != 0
    """
    return check_data_check(dti, mode, wB)
