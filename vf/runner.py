"""vcheck runner: launches obligations (CrossHair / py2smt), replays candidates on the unmodified package,
writes /verif/evidence/<id>.json and decides the exit code (DESIGN 2.5).

exit 0  no violation among everything decided (inconclusive obligations are listed, never counted as success)
exit 1  at least one replay-confirmed violation not listed in known_findings.json (one VIOLATION line each)
exit 3  machinery fault: a counterexample that does not reproduce, a vacuous obligation, a failed stub self-test,
        a crashed harness.  Nothing is claimed either way.
"""
import argparse
import ast
import concurrent.futures as cf
import hashlib
import json
import os
import re
import subprocess
import sys
import time

HERE = os.path.dirname(os.path.dirname(os.path.abspath(__file__)))
VENV_PY = os.path.join(HERE, '.venv', 'bin', 'python')
REAL_PY = '/venv/bin/python'
EVID = os.environ.get('VF_EVIDENCE_DIR') or os.path.join(HERE, 'evidence')
REPLAYS = os.path.join(EVID, 'replays')
KF_FILE = os.path.join(HERE, 'known_findings.json')

MSG_RE = re.compile(r'^(?P<file>[^:]+):(?P<line>\d+): (?P<kind>error|info|warning): (?P<msg>.*)$')
CALL_RE = re.compile(r'when calling (?P<fn>\w+)\((?P<args>.*?)\)(?: \(which (?:returns|raises) (?P<ret>.*)\))?$')


def env_for(tier, seed):
    e = dict(os.environ)
    # VF_REPO_SRC (default /repo/src): the tree under analysis; used by the import hook, by engine B and - through
    # PYTHONPATH - by the replays on the unmodified package
    src = os.environ.get('VF_REPO_SRC')
    e['PYTHONPATH'] = (src + os.pathsep + HERE) if src else HERE
    e['VERIF_TIER'] = tier
    e['VERIF_SEED'] = str(seed)
    for k in ('OMP_NUM_THREADS', 'OPENBLAS_NUM_THREADS', 'MKL_NUM_THREADS'):
        e[k] = '1'
    e['PYTHONDONTWRITEBYTECODE'] = '1'
    e['PYTHONHASHSEED'] = '0'
    return e


def parse_args_text(txt):
    """'12, 24, False, 0' -> [12, 24, False, 0] (positional and keyword arguments)."""
    env = {'nan': float('nan'), 'inf': float('inf'), 'float': float, '__builtins__': {}}
    tree = ast.parse(f'f({txt})', mode='eval')
    call = tree.body
    out = []
    for a in call.args:
        out.append(eval(compile(ast.Expression(a), '<cx>', 'eval'), env))
    kw = {}
    for k in call.keywords:
        kw[k.arg] = eval(compile(ast.Expression(k.value), '<cx>', 'eval'), env)
    return out, kw


def run_crosshair(target, cond_t, path_t, tier, seed, shard=None):
    """Returns dict(verdict, args, kwargs, message, stats, raw)."""
    cmd = ['timeout', '-k', '10', str(int(cond_t * 2 + 60)), VENV_PY, '-m', 'vf.xh', str(cond_t),
           str(path_t) if path_t else '-', target]
    t0 = time.time()
    env = env_for(tier, seed)
    if shard:
        env['VF_SHARD_I'], env['VF_SHARD_N'] = str(shard[0]), str(shard[1])
    p = subprocess.run(cmd, cwd=HERE, env=env, capture_output=True, text=True)
    wall = time.time() - t0
    out = p.stdout
    res = {'target': target, 'verdict': 'inconclusive', 'message': '', 'stats': {}, 'wall_s': round(wall, 2),
           'args': None, 'kwargs': None, 'raw': (out[-2000:] + '\n' + p.stderr[-3000:]).strip()}
    fn = target.rsplit('.', 1)[1]
    for line in out.splitlines():
        if line.startswith('VFSTATS '):
            try:
                res['stats'] = json.loads(line[8:])
            except ValueError:
                pass
            continue
        m = MSG_RE.match(line.strip())
        if not m:
            continue
        msg = m.group('msg')
        if m.group('kind') == 'info' and msg.startswith('Confirmed over all paths'):
            res['verdict'] = 'confirmed'
            res['message'] = msg
        elif m.group('kind') == 'error':
            c = CALL_RE.search(msg)
            if c and c.group('fn') == fn:
                res['verdict'] = 'counterexample'
                res['message'] = msg
                try:
                    res['args'], res['kwargs'] = parse_args_text(c.group('args'))
                except Exception as e:  # unparseable counterexample: treat as inconclusive, keep the text
                    res['verdict'] = 'inconclusive'
                    res['message'] = f'unparseable counterexample ({e}): {msg}'
                res['exception'] = None if msg.startswith('false when calling') else msg.split(' when calling')[0]
            elif 'Unable to meet precondition' in msg:
                res['verdict'] = 'precondition_unmet'
                res['message'] = msg
            else:
                res['verdict'] = 'harness_error'
                res['message'] = msg
        elif m.group('kind') in ('info', 'warning') and res['verdict'] == 'inconclusive':
            res['message'] = msg
    if p.returncode not in (0,) and not res['stats']:
        res['verdict'] = 'inconclusive' if p.returncode in (124, 137) else 'harness_error'
        res['message'] = f'process exit {p.returncode}: ' + (p.stderr.strip().splitlines()[-1] if p.stderr.strip() else '')
    return res


def run_pyfunc(py, ref, payload, tier, seed, timeout=600):
    """Run module:function(payload) in a fresh interpreter; returns its JSON result."""
    mod, fn = ref.split(':')
    code = ("import json,sys,importlib; m=importlib.import_module(sys.argv[1]); "
            "r=getattr(m,sys.argv[2])(json.loads(sys.argv[3])); print('VFRESULT '+json.dumps(r, default=str))")
    p = subprocess.run(['timeout', '-k', '10', str(timeout), py, '-c', code, mod, fn, json.dumps(payload)],
                       cwd=HERE, env=env_for(tier, seed), capture_output=True, text=True)
    for line in p.stdout.splitlines():
        if line.startswith('VFRESULT '):
            return json.loads(line[9:])
    return {'error': f'exit {p.returncode}: {p.stderr.strip()[-1500:]}'}


def trace_functions(target, args, tier, seed):
    try:
        p = subprocess.run(['timeout', '-k', '5', '120', VENV_PY, '-m', 'vf.trace_fns', target, json.dumps(args)],
                           cwd=HERE, env=env_for(tier, seed), capture_output=True, text=True)
        for line in p.stdout.splitlines():
            if line.startswith('VFFNS '):
                return json.loads(line[6:])
    except Exception:
        pass
    return []


def load_findings():
    if not os.path.exists(KF_FILE):
        return []
    with open(KF_FILE) as f:
        return json.load(f).get('findings', [])


def match_finding(findings, prop, obligation, argmap):
    for k in findings:
        if k.get('status') != 'open' or prop not in k.get('properties', []):
            continue
        if obligation not in k.get('obligations', []):
            continue
        try:
            if eval(k.get('predicate', 'True'), {'__builtins__': {'len': len, 'abs': abs, 'isinstance': isinstance,
                                                                 'str': str, 'int': int, 'bool': bool}}, dict(argmap)):
                return k
        except Exception:
            continue
    return None


def main(argv=None):
    ap = argparse.ArgumentParser()
    ap.add_argument('prop')
    ap.add_argument('path', nargs='?')
    ap.add_argument('--tier', default=os.environ.get('VERIF_TIER', 'quick'), choices=['quick', 'thorough'])
    ap.add_argument('--only', default=None, help='substring filter on obligation names (debugging)')
    ap.add_argument('--jobs', type=int, default=int(os.environ.get('VF_JOBS', '16')))
    a = ap.parse_args(argv)
    _ONLY[0] = a.only
    seed = int(os.environ.get('VERIF_SEED', '0') or 0)

    if a.prop == 'replay':
        return do_replay(a.path, seed)

    from vf.specs import SPECS
    prop = a.prop.upper()
    if prop not in SPECS:
        print(f'unknown property {prop}', file=sys.stderr)
        return 3
    spec = SPECS[prop]
    tier = a.tier
    ti = 1 if tier == 'thorough' else 0
    t_start = time.time()
    os.makedirs(REPLAYS, exist_ok=True)
    for fn in os.listdir(REPLAYS):          # replays of an earlier run of this property are stale
        if fn.startswith(prop + '-'):
            os.remove(os.path.join(REPLAYS, fn))
    findings = load_findings()

    # ------------------------------------------------------------------ 1. stub / oracle self-validation
    selftests = spec.get('selftests', [])
    st_results = []
    for ref in selftests:
        py = REAL_PY if ref.startswith('real:') else VENV_PY
        r = run_pyfunc(py, ref.split(':', 1)[1] if ref.startswith(('real:', 'venv:')) else ref, {'tier': tier}, tier, seed)
        st_results.append({'selftest': ref, 'result': r})
        if r.get('error') or not r.get('ok', False):
            print(f'HARNESS-ERROR property={prop} selftest {ref} failed: {json.dumps(r)[:600]}')
            write_evidence(prop, tier, seed, spec, [], st_results, t_start, violations=0, harness_error=True)
            return 3

    # ------------------------------------------------------------------ 2. launch obligations
    jobs = []
    for ob in spec['obligations']:
        if tier == 'quick' and ob.get('thorough_only'):
            continue
        if a.only and a.only not in ob['fn']:
            continue
        jobs.append(ob)
    order = list(range(len(jobs)))
    # longest first
    order.sort(key=lambda i: -pick(jobs[i].get('timeout', (60, 240)), ti))
    results = [None] * len(jobs)
    with cf.ThreadPoolExecutor(max_workers=a.jobs) as ex:
        futs = {}
        for i in order:
            ob = jobs[i]
            if ob.get('engine', 'crosshair') == 'crosshair':
                n_sh = pick(ob.get('shards', (1, 1)), ti)
                for k in range(n_sh):
                    fut = ex.submit(run_crosshair, ob['fn'], pick(ob.get('timeout', (60, 240)), ti),
                                    pick(ob.get('path_timeout', (None, None)), ti), tier, seed,
                                    (k, n_sh) if n_sh > 1 else None)
                    futs[fut] = (i, k, n_sh)
            else:
                fut = ex.submit(run_smt, ob, tier, seed)
                futs[fut] = (i, 0, 1)
        parts = {}
        for fut in cf.as_completed(futs):
            i, k, n_sh = futs[fut]
            parts.setdefault(i, {})[k] = fut.result()
        for i, d in parts.items():
            results[i] = merge_shards([d[k] for k in sorted(d)])

    # ------------------------------------------------------------------ 3. interpret
    violations = 0
    harness_error = False
    records = []
    lines = []
    for ob, r in zip(jobs, results):
        kind = ob['kind']
        name = ob['fn'].rsplit('.', 1)[1]
        rec = {'obligation': name, 'kind': kind, 'engine': ob.get('engine', 'crosshair'), 'verdict': r['verdict'],
               'message': r.get('message', ''), 'wall_s': r.get('wall_s'), 'stats': r.get('stats', {}),
               'bounds': pick(ob.get('bounds', ''), ti), 'entry_points': ob.get('entry', [])}
        if r['verdict'] == 'harness_error':
            harness_error = True
            rec['outcome'] = 'harness_error'
            lines.append(f'HARNESS-ERROR property={prop} obligation={name}: {r["message"][:400]}')
            rec['raw'] = r.get('raw', '')[-1500:]
        elif ob.get('engine', 'crosshair') != 'crosshair':
            # py2smt obligations decide themselves (unsat on both solvers / sat + replay)
            rec.update({k: r[k] for k in ('queries', 'solvers', 'detail', 'sample') if k in r})
            if r['verdict'] == 'confirmed':
                rec['outcome'] = 'discharged'
            elif r['verdict'] == 'counterexample':
                rec['outcome'], v, he = handle_counterexample(prop, ob, name, r, findings, tier, seed, lines, rec)
                violations += v
                harness_error |= he
            else:
                rec['outcome'] = 'inconclusive'
                lines.append(f'INCONCLUSIVE property={prop} obligation={name}: {r.get("message", "")[:300]}')
        elif kind == 'universal':
            if r['verdict'] == 'confirmed':
                rec['outcome'] = 'discharged'
            elif r['verdict'] == 'counterexample':
                rec['outcome'], v, he = handle_counterexample(prop, ob, name, r, findings, tier, seed, lines, rec)
                violations += v
                harness_error |= he
            else:
                rec['outcome'] = 'inconclusive'
                lines.append(f'INCONCLUSIVE property={prop} obligation={name}: {r["verdict"]} {r["message"][:300]}')
        elif kind in ('reach', 'witness'):
            if r['verdict'] == 'counterexample' and r.get('exception') is None:
                rec['outcome'] = 'reached'
                rec['witness'] = {'args': r['args'], 'kwargs': r['kwargs'], 'returns': witness_ret(r['message'])}
                if ob.get('validate'):
                    vr = run_pyfunc(REAL_PY, ob['validate'], {'args': r['args'], 'kwargs': r['kwargs'], 'target': ob['fn'],
                                                             'mode': 'witness', 'obligation': name}, tier, seed)
                    rec['validated_against_impl'] = vr
                    if vr.get('error'):
                        harness_error = True
                        rec['outcome'] = 'stub_mismatch'
                        lines.append(f'HARNESS-ERROR property={prop} witness of {name}: replay crashed: '
                                     f'{json.dumps(vr)[:400]}')
                    elif not vr.get('ok', False) and 'StubGap' in str(vr.get('detail') or ''):
                        # a plain replay that itself ran into a stub: nothing observed about the package
                        rec['outcome'] = 'inconclusive'
                        lines.append(f'INCONCLUSIVE property={prop} witness of {name}: stub gap in the replay ({str(vr.get("detail"))[:200]})')
                    elif not vr.get('ok', False):
                        # the symbolic run says this input is fine; the unmodified package, judged by the independent
                        # file-level oracle, says it is not: that is an observed violation of the property on the real
                        # code (found at a solver-chosen witness), whatever module causes it
                        r2 = dict(r)
                        rr = dict(vr)
                        rr['reproduced'] = True
                        argmap = dict(rr.get('argmap') or {})
                        argmap.setdefault('args', r['args'])
                        kf = match_finding(findings, prop, name, argmap)
                        if kf is not None:
                            lines.append(f'KNOWN-FINDING: property={prop} {kf["id"]} {kf["what"]} (witness {r["args"]})')
                            rec['known_finding'] = kf['id']
                            rec['outcome'] = 'known_finding'
                        else:
                            h = hashlib.sha1(json.dumps([prop, name, r['args']], default=str).encode()).hexdigest()[:10]
                            path = os.path.join(REPLAYS, f'{prop}-{name}-{h}.json')
                            with open(path, 'w') as f:
                                json.dump({'property': prop, 'obligation': name, 'replay': ob['validate'],
                                           'payload': {'args': r['args'], 'kwargs': r['kwargs'], 'target': ob['fn'],
                                                       'mode': 'violation', 'obligation': name}, 'observed': rr}, f,
                                          indent=1, default=str)
                            lines.append(f'VIOLATION property={prop} replay={path}')
                            lines.append(f'  witness of {name} input={r["args"]} on the unmodified package: '
                                         f'{str(vr.get("detail"))[:300]}')
                            rec['outcome'] = 'violation'
                            violations += 1
            elif r['verdict'] == 'counterexample':
                # the twin raised: the path to the assertion is blocked by an exception -> report as candidate
                rec['outcome'], v, he = handle_counterexample(prop, ob, name, r, findings, tier, seed, lines, rec)
                violations += v
                harness_error |= he
            elif r['verdict'] == 'confirmed':
                if kind == 'witness' and ob.get('may_be_unreachable'):
                    rec['outcome'] = 'unreachable'
                    lines.append(f'NOTE property={prop} witness {name} is unreachable on this tree')
                else:
                    harness_error = True
                    rec['outcome'] = 'vacuous'
                    lines.append(f'HARNESS-ERROR property={prop} {name}: assertion unreachable (vacuous obligation)')
            else:
                rec['outcome'] = 'inconclusive'
                lines.append(f'INCONCLUSIVE property={prop} obligation={name}: {r["verdict"]} {r["message"][:300]}')
        elif kind == 'kf':
            if r['verdict'] == 'counterexample':
                rec['outcome'], v, he = handle_counterexample(prop, ob, name, r, findings, tier, seed, lines, rec)
                violations += v
                harness_error |= he
            elif r['verdict'] == 'confirmed':
                rec['outcome'] = 'finding_absent'
            else:
                rec['outcome'] = 'inconclusive'
                lines.append(f'INCONCLUSIVE property={prop} obligation={name}: {r["verdict"]} {r["message"][:300]}')
        records.append(rec)

    # measured list of functions entered: every reachability witness is re-run concretely under a profiler
    measured = set()
    wit = [(ob['fn'], rec['witness']['args']) for ob, rec in zip(jobs, records)
           if rec.get('witness') and rec['witness'].get('args') is not None and ob.get('engine', 'crosshair') == 'crosshair']
    with cf.ThreadPoolExecutor(max_workers=a.jobs) as ex:
        for names in ex.map(lambda t: trace_functions(t[0], t[1], tier, seed), wit):
            measured.update(names)
    spec = dict(spec)
    spec['functions_measured'] = sorted(measured)
    for ln in lines:
        print(ln)
    write_evidence(prop, tier, seed, spec, records, st_results, t_start, violations, harness_error)
    n_dis = sum(1 for r in records if r['outcome'] in ('discharged', 'reached', 'finding_absent', 'known_finding',
                                                        'unreachable'))
    print(f'SUMMARY property={prop} tier={tier} obligations={len(records)} decided={n_dis} '
          f'violations={violations} wall={time.time() - t_start:.1f}s')
    if violations:
        return 1
    if harness_error:
        return 3
    return 0


def merge_shards(rs):
    """Shards partition the input space of one obligation: confirmed only if every shard is; a counterexample of
    any shard is the obligation's counterexample; otherwise the weakest verdict wins."""
    if len(rs) == 1:
        return rs[0]
    out = dict(rs[0])
    st = {'paths': 0, 'smt_queries': 0, 'smt_time_s': 0.0, 'shards': len(rs)}
    for r in rs:
        for k in ('paths', 'smt_queries', 'smt_time_s'):
            st[k] += r.get('stats', {}).get(k, 0)
    out['stats'] = st
    out['wall_s'] = max(r.get('wall_s', 0) for r in rs)
    for v in ('counterexample', 'harness_error', 'precondition_unmet', 'inconclusive'):
        hit = [r for r in rs if r['verdict'] == v]
        if hit:
            out.update({k: hit[0].get(k) for k in ('verdict', 'message', 'args', 'kwargs', 'exception', 'raw')})
            return out
    out['verdict'] = 'confirmed'
    return out


def pick(v, ti):
    if isinstance(v, (tuple, list)):
        return v[ti]
    return v


def witness_ret(msg):
    m = re.search(r'\(which returns (.*)\)$', msg)
    return m.group(1) if m else None


def handle_counterexample(prop, ob, name, r, findings, tier, seed, lines, rec):
    """Replay a candidate on the unmodified package. Returns (outcome, n_violations, harness_error)."""
    rec['counterexample'] = {'args': r.get('args'), 'kwargs': r.get('kwargs'), 'message': r.get('message', '')[:500]}
    replay = ob.get('replay')
    if not replay and 'StubGap' in (r.get('message') or ''):
        lines.append(f'INCONCLUSIVE property={prop} obligation={name}: stub gap ({(r.get("message") or "")[:200]})')
        return 'inconclusive', 0, False
    if not replay:
        lines.append(f'HARNESS-ERROR property={prop} obligation={name}: counterexample without a replay function: '
                     f'{r.get("message", "")[:300]}')
        return 'unreplayable', 0, True
    payload = {'args': r.get('args'), 'kwargs': r.get('kwargs'), 'mode': 'violation', 'obligation': name,
               'model': r.get('model'), 'target': ob['fn']}
    rr = run_pyfunc(REAL_PY, replay, payload, tier, seed)
    rec['replay'] = rr
    if rr.get('error'):
        lines.append(f'HARNESS-ERROR property={prop} obligation={name}: replay crashed: {rr["error"][:400]}')
        return 'replay_error', 0, True
    if 'StubGap' in str(rr.get('detail') or ''):
        # the replay itself ran into a stub (plain replays of harnesses that stand a numpy stub in): what "reproduced"
        # is the gap in the stub, not a behaviour of the package - never a verdict
        lines.append(f'INCONCLUSIVE property={prop} obligation={name}: stub gap in the replay ({str(rr.get("detail"))[:200]})')
        return 'inconclusive', 0, False
    if not rr.get('reproduced', False) and 'StubGap' in (r.get('message') or ''):
        # the code under analysis uses something the stubs do not model, and the real package behaves as specified
        # on the same input: the obligation is not decided (reported, never a verdict)
        lines.append(f'INCONCLUSIVE property={prop} obligation={name}: stub gap ({(r.get("message") or "")[:200]}); '
                     f'the candidate {r.get("args")} behaves as specified on the unmodified package')
        return 'inconclusive', 0, False
    if not rr.get('reproduced', False):
        lines.append(f'HARNESS-ERROR property={prop} obligation={name}: counterexample {r.get("args")} does not '
                     f'reproduce on the unmodified package ({str(rr.get("detail"))[:300]}): encoding or stub is wrong')
        return 'not_reproduced', 0, True
    argmap = dict(rr.get('argmap') or {})
    argmap.setdefault('args', r.get('args'))
    kf = match_finding(findings, prop, name, argmap)
    if kf is not None:
        lines.append(f'KNOWN-FINDING: property={prop} {kf["id"]} {kf["what"]} (witness {r.get("args")})')
        rec['known_finding'] = kf['id']
        return 'known_finding', 0, False
    h = hashlib.sha1(json.dumps([prop, name, r.get('args')], default=str).encode()).hexdigest()[:10]
    path = os.path.join(REPLAYS, f'{prop}-{name}-{h}.json')
    with open(path, 'w') as f:
        json.dump({'property': prop, 'obligation': name, 'replay': replay, 'payload': payload,
                   'observed': rr}, f, indent=1, default=str)
    lines.append(f'VIOLATION property={prop} replay={path}')
    lines.append(f'  obligation={name} input={r.get("args")} observed={str(rr.get("detail"))[:300]}')
    return 'violation', 1, False


def run_smt(ob, tier, seed):
    t0 = time.time()
    r = run_pyfunc(VENV_PY, ob['fn'].rsplit('.', 1)[0] + ':' + ob['fn'].rsplit('.', 1)[1], {'tier': tier},
                   tier, seed, timeout=pick(ob.get('timeout', (300, 900)), 1 if tier == 'thorough' else 0))
    r.setdefault('verdict', 'harness_error' if r.get('error') else 'inconclusive')
    r.setdefault('message', r.get('error', ''))
    r['wall_s'] = round(time.time() - t0, 2)
    r.setdefault('stats', {})
    return r


def do_replay(path, seed):
    with open(path) as f:
        d = json.load(f)
    rr = run_pyfunc(REAL_PY, d['replay'], d['payload'], 'quick', seed)
    print(json.dumps(rr, indent=1, default=str))
    if rr.get('reproduced'):
        print(f'VIOLATION property={d["property"]} replay={path}')
        return 1
    return 0


_ONLY = [None]     # set by main() when the run is filtered with --only


def write_evidence(prop, tier, seed, spec, records, st_results, t_start, violations, harness_error):
    os.makedirs(EVID, exist_ok=True)
    paths = sum(r.get('stats', {}).get('paths', 0) for r in records)
    smt_q = sum(r.get('stats', {}).get('smt_queries', 0) for r in records)
    smt_t = sum(r.get('stats', {}).get('smt_time_s', 0.0) for r in records)
    for r in records:
        if 'queries' in r:
            smt_q += sum(q.get('n', 1) for q in r['queries'])
            smt_t += sum(q.get('time_s', 0.0) for q in r['queries'])
    universal = [r for r in records if r['kind'] in ('universal', 'smt')]
    discharged = [r for r in universal if r['outcome'] == 'discharged']
    validated = sum(1 for r in records if isinstance(r.get('validated_against_impl'), dict)
                    and r['validated_against_impl'].get('ok'))
    validated += sum(1 for r in records if isinstance(r.get('replay'), dict) and r['replay'].get('reproduced'))
    validated += sum(int(s['result'].get('cases', 0)) for s in st_results if isinstance(s.get('result'), dict))
    samples = []
    for r in records:
        if r.get('witness'):
            samples.append({'obligation': r['obligation'], 'witness': r['witness'],
                            'real_code': (r.get('validated_against_impl') or {}).get('sample')})
        if r.get('counterexample'):
            samples.append({'obligation': r['obligation'], 'counterexample': r['counterexample'],
                            'outcome': r['outcome'], 'replay_detail': (r.get('replay') or {}).get('detail')})
        if r.get('sample'):
            samples.append({'obligation': r['obligation'], 'smt': r['sample']})
    if not samples:
        samples = [{'obligation': r['obligation'], 'verdict': r['verdict']} for r in records[:3]] or ['none']
    fn_enc = spec.get('functions', [])
    ev = {
        'property_id': prop, 'tier': tier, 'seed': seed, 'level': 'model_checking',
        'wall_s': round(time.time() - t_start, 2), 'violations': violations,
        'coverage': {
            'states': max(paths + smt_q, 1),
            'transitions': max(smt_q, 1),
            'traces_validated_against_impl': validated,
            'samples': samples[:40],
            'explanation': 'states = execution paths explored symbolically by CrossHair over the real functions plus SMT '
                           'queries of engine B; transitions = SMT queries discharged (z3 inside CrossHair, z3/cvc5 '
                           'for py2smt). A universal obligation counts as discharged only on "Confirmed over all '
                           'paths" (every feasible path within the stated bounds explored and the post-condition '
                           'proved on each) or unsat on both solvers.',
            'paths_explored': paths, 'smt_queries': smt_q, 'solver_time_s': round(smt_t, 2),
            'obligations': len(universal), 'discharged': len(discharged),
            'inconclusive': [r['obligation'] for r in records if r['outcome'] == 'inconclusive'],
            'reachability_witnesses': sum(1 for r in records if r['outcome'] == 'reached'),
            'known_findings_seen': sorted({r['known_finding'] for r in records if r.get('known_finding')}),
            'harness_error': harness_error,
            'per_obligation': [{k: r.get(k) for k in ('obligation', 'kind', 'engine', 'verdict', 'outcome', 'bounds',
                                                     'entry_points', 'wall_s', 'stats', 'message', 'queries',
                                                     'solvers', 'known_finding')
                                if r.get(k) not in (None, '', [], {})} for r in records],
            'functions_encoded': fn_enc,
            'stubs': spec.get('stubs', []), 'cuts': spec.get('cuts', []),
            'outside_the_claim': spec.get('outside', []),
            'selftests': st_results,
            'checker_cmd': f'./vcheck {prop} --tier {tier}',
        },
        'assumptions': spec.get('assumptions', []),
    }
    # measured list of functions the obligations entered (qualified name + sha256 of current source)
    try:
        from vf.fnhash import hash_functions
        ev['coverage']['functions_encoded'] = hash_functions(fn_enc)
        meas = spec.get('functions_measured', [])
        ev['coverage']['functions_entered_by_witnesses'] = hash_functions(meas)
        ev['coverage']['functions_entered_note'] = ('measured: every reachability witness found by the solver was re-run '
                                                    'concretely under sys.setprofile; functions_encoded is the list of '
                                                    'entry points named by the obligations')
    except Exception as e:  # never let bookkeeping mask a verdict
        ev['coverage']['functions_encoded_error'] = str(e)
    # a filtered run (--only, a debugging aid) covers part of the property: its evidence goes to a side file and never
    # replaces the evidence of the registered command
    with open(os.path.join(EVID, f'{prop}.json' if not _ONLY[0] else f'{prop}.partial.json'), 'w') as f:
        json.dump(ev, f, indent=1, default=str)


if __name__ == '__main__':
    sys.exit(main())
