"""Measure which functions of the package an obligation actually enters: run the obligation function once, concretely,
on a witness found by the solver (hooked import, stubs on, no CrossHair) under sys.setprofile and collect every code
object that lives under the source tree being analysed.

usage: python -m vf.trace_fns <module.function> '<json list of args>'   ->  prints VFFNS <json list of qualified names>
"""
import importlib
import json
import os
import sys


def main(argv):
    target, args = argv[0], json.loads(argv[1])
    mod, fn = target.rsplit('.', 1)
    m = importlib.import_module(mod)          # imports happen before profiling: only calls made by the run are counted
    f = getattr(m, fn)
    root = os.path.realpath(os.environ.get('VF_REPO_SRC', '/repo/src'))
    seen = set()

    def prof(frame, event, arg):
        if event == 'call':
            co = frame.f_code
            fnm = co.co_filename
            if fnm.startswith(root):
                seen.add(getattr(co, 'co_qualname', co.co_name))

    sys.setprofile(prof)
    try:
        f(*args)
    except BaseException:
        pass
    finally:
        sys.setprofile(None)
    out = sorted(q for q in seen if '<' not in q.split('.')[-1] or q.endswith('<lambda>'))
    print('VFFNS ' + json.dumps(out))


if __name__ == '__main__':
    main(sys.argv[1:])
