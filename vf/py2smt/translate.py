"""py2smt: a small symbolic executor from Python AST to SMT-LIB2 terms (engine B, DESIGN 2.1).

Scope: straight-line integer code with if/elif/else, assignments, augmented assignments, return, raise, chained
comparisons, bool ops, ``+ - *`` and ``// %`` by positive constants, ``min max abs``, ``x is None`` on parameters
declared non-None.  Python ``int`` -> SMT ``Int`` (unbounded, as in Python).  Anything else is *opaque*:
calls to unknown callables yield fresh uninterpreted values; an opaque value reaching a branch condition or an
arithmetic operator makes the translation fail with ``Untranslatable(node)`` - the obligation is then inconclusive and
names the node; it is never a pass.

A translation yields *paths*: (path condition, outcome, locals) with outcome ('return', value) | ('raise', excname) |
('fallthrough',).  ``RepresentationCode.<X>.convert(e)`` is kept as the structured value ('pack', fmt, e) with the format
string read from the real enum table source.
"""
import ast
import itertools


class Untranslatable(Exception):
    def __init__(self, node, why=''):
        self.node = node
        txt = ast.unparse(node) if isinstance(node, ast.AST) else str(node)
        super().__init__(f'untranslatable construct at line {getattr(node, "lineno", "?")}: {txt[:80]} {why}')


_fresh = itertools.count()


def I(term):
    return ('int', term)


def B(term):
    return ('bool', term)


def smt_int(n):
    return str(n) if n >= 0 else f'(- {-n})'


class Executor:
    def __init__(self, consts=None, attr_map=None, non_none=(), pack_formats=None, inline=None, max_paths=4000):
        self.consts = consts or {}              # module-level integer constants by name
        self.attr_map = attr_map or {}          # 'self._size' -> value
        self.non_none = set(non_none)
        self.pack_formats = pack_formats or {}  # 'USHORT' -> '>B'
        self.inline = inline or {}              # function name -> ast.FunctionDef to inline (pure int helpers)
        self.decls = []                         # fresh opaque symbols (declared as Int, unconstrained)
        self.max_paths = max_paths
        self.side = []                          # side conditions under which a translation is exact (bit operators)

    # ---------------------------------------------------------------- expressions
    def opaque(self, hint='o'):
        name = f'opq_{hint}_{next(_fresh)}'
        return ('opaque', name)

    def as_int(self, v, node):
        if v[0] == 'int':
            return v[1]
        if v[0] == 'bool':
            return f'(ite {v[1]} 1 0)'
        raise Untranslatable(node, f'(integer needed, got {v[0]})')

    def as_bool(self, v, node):
        if v[0] == 'bool':
            return v[1]
        if v[0] == 'int':
            return f'(not (= {v[1]} 0))'
        if v[0] == 'none':
            return 'false'
        raise Untranslatable(node, f'(truth value of {v[0]})')

    def expr(self, node, env):
        if isinstance(node, ast.Constant):
            if isinstance(node.value, bool):
                return B('true' if node.value else 'false')
            if isinstance(node.value, int):
                return I(smt_int(node.value))
            if node.value is None:
                return ('none',)
            return ('opaque', f'const_{type(node.value).__name__}')
        if isinstance(node, ast.Name):
            if node.id in env:
                return env[node.id]
            if node.id in self.consts:
                return I(smt_int(self.consts[node.id]))
            return ('opaque', f'name_{node.id}')
        if isinstance(node, ast.Attribute):
            key = ast.unparse(node)
            if key in env:
                return env[key]
            if key in self.attr_map:
                return self.attr_map[key]
            return ('opaque', f'attr_{key}')
        if isinstance(node, ast.Tuple):
            return ('tuple', [self.expr(e, env) for e in node.elts])
        if isinstance(node, ast.UnaryOp):
            v = self.expr(node.operand, env)
            if isinstance(node.op, ast.Not):
                return B(f'(not {self.as_bool(v, node)})')
            if isinstance(node.op, ast.USub):
                return I(f'(- {self.as_int(v, node)})')
            raise Untranslatable(node)
        if isinstance(node, ast.BoolOp):
            vals = [self.as_bool(self.expr(v, env), node) for v in node.values]
            op = 'and' if isinstance(node.op, ast.And) else 'or'
            return B(f'({op} {" ".join(vals)})')
        if isinstance(node, ast.Compare):
            parts = []
            left = self.expr(node.left, env)
            for op, rn in zip(node.ops, node.comparators):
                right = self.expr(rn, env)
                parts.append(self.compare(op, left, right, node))
                left = right
            return B(parts[0] if len(parts) == 1 else f'(and {" ".join(parts)})')
        if isinstance(node, ast.BinOp):
            a = self.expr(node.left, env)
            b = self.expr(node.right, env)
            if a[0] in ('opaque', 'pack', 'tuple') or b[0] in ('opaque', 'pack', 'tuple'):
                if isinstance(node.op, (ast.Add, ast.Mult)):
                    return ('concat', [a, b]) if isinstance(node.op, ast.Add) else ('opaque', 'repeat')
                raise Untranslatable(node, '(operator on opaque value)')
            if a[0] == 'concat' or b[0] == 'concat':
                if isinstance(node.op, ast.Add):
                    return ('concat', [a, b])
                raise Untranslatable(node)
            x, y = self.as_int(a, node), self.as_int(b, node)
            if isinstance(node.op, ast.Add):
                return I(f'(+ {x} {y})')
            if isinstance(node.op, ast.Sub):
                return I(f'(- {x} {y})')
            if isinstance(node.op, ast.Mult):
                if not (_is_num(x) or _is_num(y)):
                    raise Untranslatable(node, '(symbolic * symbolic)')
                return I(f'(* {x} {y})')
            if isinstance(node.op, (ast.BitOr, ast.BitAnd, ast.BitXor)):
                # exact for non-negative operands below 2**64 (recorded as a side condition of the translation)
                op = {ast.BitOr: 'bvor', ast.BitAnd: 'bvand', ast.BitXor: 'bvxor'}[type(node.op)]
                for t in (x, y):
                    if not _is_num(t):
                        self.side.append(f'(and (>= {t} 0) (< {t} 18446744073709551616))')
                    elif int(t) < 0:
                        raise Untranslatable(node, '(bit operator on a negative constant)')
                return I(f'(bv2nat ({op} ((_ int2bv 64) {x}) ((_ int2bv 64) {y})))')
            if isinstance(node.op, (ast.LShift, ast.RShift)):
                if not _is_num(y) or int(y) < 0 or int(y) > 64:
                    raise Untranslatable(node, '(shift by a non-constant)')
                k = 2 ** int(y)
                return I(f'(* {x} {k})') if isinstance(node.op, ast.LShift) else I(f'(div {x} {k})')
            if isinstance(node.op, (ast.FloorDiv, ast.Mod)):
                if not _is_num(y) or int(y) <= 0:
                    raise Untranslatable(node, '(division by a non-constant or non-positive value)')
                # for a positive constant divisor SMT-LIB Euclidean div/mod coincide with Python floor div/mod
                return I(f'({"div" if isinstance(node.op, ast.FloorDiv) else "mod"} {x} {y})')
            raise Untranslatable(node)
        if isinstance(node, ast.IfExp):
            c = self.as_bool(self.expr(node.test, env), node)
            a, b = self.expr(node.body, env), self.expr(node.orelse, env)
            if a[0] == b[0] == 'int':
                return I(f'(ite {c} {a[1]} {b[1]})')
            if a[0] == b[0] == 'bool':
                return B(f'(ite {c} {a[1]} {b[1]})')
            raise Untranslatable(node)
        if isinstance(node, ast.Call):
            return self.call(node, env)
        if isinstance(node, ast.Subscript):
            self.expr(node.value, env)
            return ('opaque', 'subscript')
        if isinstance(node, ast.JoinedStr):
            return ('opaque', 'fstring')
        raise Untranslatable(node)

    def compare(self, op, a, b, node):
        if isinstance(op, (ast.Is, ast.IsNot)):
            neg = isinstance(op, ast.IsNot)
            if b[0] == 'none':
                if a[0] == 'none':
                    return 'false' if neg else 'true'
                if a[0] in ('int', 'bool'):
                    return 'true' if neg else 'false'
            raise Untranslatable(node, '(identity test on a value of unknown kind)')
        if a[0] == 'bool' and b[0] == 'bool' and isinstance(op, (ast.Eq, ast.NotEq)):
            t = f'(= {a[1]} {b[1]})'
            return t if isinstance(op, ast.Eq) else f'(not {t})'
        x, y = self.as_int(a, node), self.as_int(b, node)
        sym = {ast.Lt: '<', ast.LtE: '<=', ast.Gt: '>', ast.GtE: '>=', ast.Eq: '='}.get(type(op))
        if sym:
            return f'({sym} {x} {y})'
        if isinstance(op, ast.NotEq):
            return f'(not (= {x} {y}))'
        raise Untranslatable(node)

    def call(self, node, env):
        fn = ast.unparse(node.func)
        args = [self.expr(a, env) for a in node.args]
        if fn in ('min', 'max') and len(args) == 2 and not node.keywords:
            x, y = self.as_int(args[0], node), self.as_int(args[1], node)
            cmp = '<=' if fn == 'min' else '>='
            return I(f'(ite ({cmp} {x} {y}) {x} {y})')
        if fn == 'abs' and len(args) == 1:
            x = self.as_int(args[0], node)
            return I(f'(ite (>= {x} 0) {x} (- {x}))')
        if fn == 'int' and len(args) == 1 and args[0][0] in ('int', 'bool'):
            return I(self.as_int(args[0], node))
        parts = fn.split('.')
        if len(parts) >= 3 and parts[-1] == 'convert' and parts[-2] in self.pack_formats and len(args) == 1:
            return ('pack', self.pack_formats[parts[-2]], args[0])
        if fn in self.inline and not node.keywords:
            sub = self.inline[fn]
            names = [a.arg for a in sub.args.args]
            paths = self.run(sub.body, dict(zip(names, args)))
            rets = [p for p in paths if p[1][0] == 'return']
            if len(paths) == 1 and rets:
                return rets[0][1][1]
            raise Untranslatable(node, '(inlined helper with several paths)')
        return self.opaque(parts[-1])

    # ---------------------------------------------------------------- statements
    def run(self, stmts, env, cond='true'):
        """-> list of (cond, outcome, env)."""
        paths = [(cond, ('fallthrough',), dict(env))]
        for st in stmts:
            nxt = []
            for (c, out, e) in paths:
                if out[0] != 'fallthrough':
                    nxt.append((c, out, e))
                    continue
                nxt.extend(self.stmt(st, c, e))
            paths = nxt
            if len(paths) > self.max_paths:
                raise Untranslatable(st, '(path explosion)')
        return paths

    def stmt(self, st, c, env):
        if isinstance(st, ast.Expr):
            if isinstance(st.value, ast.Constant):
                return [(c, ('fallthrough',), env)]           # docstring
            if isinstance(st.value, ast.Yield):
                v = self.expr(st.value.value, env) if st.value.value is not None else ('none',)
                env = dict(env)
                env['__yields__'] = env.get('__yields__', ('list', []))
                env['__yields__'] = ('list', env['__yields__'][1] + [v])
                return [(c, ('fallthrough',), env)]
            self.expr(st.value, env)                          # evaluated for translatability; effect-free subset
            return [(c, ('fallthrough',), env)]
        if isinstance(st, ast.Pass):
            return [(c, ('fallthrough',), env)]
        if isinstance(st, ast.Assign):
            v = self.expr(st.value, env)
            env = dict(env)
            for t in st.targets:
                self.assign(t, v, env, st)
            return [(c, ('fallthrough',), env)]
        if isinstance(st, ast.AnnAssign):
            env = dict(env)
            if st.value is not None:
                self.assign(st.target, self.expr(st.value, env), env, st)
            return [(c, ('fallthrough',), env)]
        if isinstance(st, ast.AugAssign):
            cur = ast.BinOp(left=_load(st.target), op=st.op, right=st.value)
            ast.copy_location(cur, st)
            v = self.expr(cur, env)
            env = dict(env)
            self.assign(st.target, v, env, st)
            return [(c, ('fallthrough',), env)]
        if isinstance(st, ast.Return):
            v = self.expr(st.value, env) if st.value is not None else ('none',)
            return [(c, ('return', v), env)]
        if isinstance(st, ast.Raise):
            name = 'Exception'
            if isinstance(st.exc, ast.Call):
                name = ast.unparse(st.exc.func)
            elif st.exc is not None:
                name = ast.unparse(st.exc)
            return [(c, ('raise', name), env)]
        if isinstance(st, ast.If):
            t = self.as_bool(self.expr(st.test, env), st.test)
            a = self.run(st.body, env, _and(c, t))
            b = self.run(st.orelse, env, _and(c, f'(not {t})'))
            return a + b
        raise Untranslatable(st)

    def assign(self, target, v, env, st):
        if isinstance(target, ast.Name):
            env[target.id] = v
        elif isinstance(target, ast.Attribute):
            env[ast.unparse(target)] = v
        elif isinstance(target, ast.Tuple) and v[0] == 'tuple' and len(v[1]) == len(target.elts):
            for t, x in zip(target.elts, v[1]):
                self.assign(t, x, env, st)
        else:
            raise Untranslatable(st)


def _load(t):
    import copy
    t2 = copy.deepcopy(t)
    for n in ast.walk(t2):
        if hasattr(n, 'ctx'):
            n.ctx = ast.Load()
    return t2


def _and(a, b):
    if a == 'true':
        return b
    return f'(and {a} {b})'


def _is_num(term):
    return term.lstrip('-').isdigit()


# ------------------------------------------------------------------------------------------------- source access

def find_function(path, qualname):
    """AST of function ``qualname`` ('f' or 'Class.f') in file ``path`` plus the module AST and source."""
    with open(path) as f:
        src = f.read()
    mod = ast.parse(src)
    parts = qualname.split('.')
    node = mod
    for part in parts:
        for ch in ast.iter_child_nodes(node):
            if isinstance(ch, (ast.FunctionDef, ast.ClassDef)) and ch.name == part:
                node = ch
                break
        else:
            raise KeyError(f'{qualname} not found in {path}')
    return node, mod, src


def module_int_consts(mod):
    out = {}
    for st in mod.body:
        if isinstance(st, ast.Assign) and len(st.targets) == 1 and isinstance(st.targets[0], ast.Name):
            try:
                v = ast.literal_eval(st.value)
            except Exception:
                try:
                    v = eval(compile(ast.Expression(st.value), '<c>', 'eval'), {'__builtins__': {}})
                except Exception:
                    continue
            if isinstance(v, int) and not isinstance(v, bool):
                out[st.targets[0].id] = v
    return out


def pack_formats(enum_path):
    """{'USHORT': '>B', ...} read from the RepresentationCode class body: ``NAME = <int>, Struct('<fmt>')``."""
    with open(enum_path) as f:
        mod = ast.parse(f.read())
    out = {}
    for cls in mod.body:
        if isinstance(cls, ast.ClassDef) and cls.name == 'RepresentationCode':
            for st in cls.body:
                if isinstance(st, ast.Assign) and isinstance(st.value, ast.Tuple) and len(st.value.elts) == 2:
                    call = st.value.elts[1]
                    if isinstance(call, ast.Call) and ast.unparse(call.func) == 'Struct' and call.args:
                        out[st.targets[0].id] = ast.literal_eval(call.args[0])
    return out
