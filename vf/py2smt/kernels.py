"""Engine-B obligations K1..K5: SMT-LIB generated from the *current* source of leaf kernels in /repo/src.

Each function returns {'verdict': 'confirmed'|'counterexample'|'inconclusive', 'message', 'queries': [...],
'sample', 'args' (for the replay of a sat answer)}.
"""
import ast
import os
import re
import struct

from vf.py2smt import solvers
from vf.py2smt.translate import (Executor, Untranslatable, find_function, module_int_consts, pack_formats, I, B)

SRC = os.environ.get('VF_REPO_SRC', '/repo/src')
P_SW = os.path.join(SRC, 'dliswriter/utils/internal/struct_writer.py')
P_ENUM = os.path.join(SRC, 'dliswriter/utils/internal/internal_enums.py')
P_LRB = os.path.join(SRC, 'dliswriter/logical_record/core/logical_record/logical_record_bytes.py')
P_SUB = os.path.join(SRC, 'dliswriter/logical_record/core/attribute/subtypes.py')
P_VC = os.path.join(SRC, 'dliswriter/utils/internal/value_checkers.py')

WIDTH = {'>B': 1, '>H': 2, '>I': 4}


# ---------------------------------------------------------------------------------- tiny concrete evaluator of terms

def _tok(s):
    return s.replace('(', ' ( ').replace(')', ' ) ').split()


def _parse(tokens):
    t = tokens.pop(0)
    if t == '(':
        out = []
        while tokens[0] != ')':
            out.append(_parse(tokens))
        tokens.pop(0)
        return out
    return t


def evalsmt(term, env):
    return _ev(_parse(_tok(term)), env)


def _ev(t, env):
    if isinstance(t, str):
        if t == 'true':
            return True
        if t == 'false':
            return False
        if t.lstrip('-').isdigit():
            return int(t)
        return env[t]
    op, args = t[0], t[1:]
    if isinstance(op, list):                          # ((_ int2bv 64) x)
        if op[:2] == ['_', 'int2bv']:
            return _ev(args[0], env) % (2 ** int(op[2]))
        raise KeyError(str(op))
    if op == 'bv2nat':
        return _ev(args[0], env)
    if op in ('bvor', 'bvand', 'bvxor'):
        a, b = _ev(args[0], env), _ev(args[1], env)
        return a | b if op == 'bvor' else a & b if op == 'bvand' else a ^ b
    if op == 'ite':
        return _ev(args[1], env) if _ev(args[0], env) else _ev(args[2], env)
    if op == 'and':
        return all(_ev(a, env) for a in args)
    if op == 'or':
        return any(_ev(a, env) for a in args)
    v = [_ev(a, env) for a in args]
    if op == 'not':
        return not v[0]
    if op == '+':
        return sum(v)
    if op == '-':
        return -v[0] if len(v) == 1 else v[0] - sum(v[1:])
    if op == '*':
        r = 1
        for x in v:
            r *= x
        return r
    if op == 'div':
        return v[0] // v[1]
    if op == 'mod':
        return v[0] % v[1]
    if op == '=':
        return v[0] == v[1]
    return {'<': v[0] < v[1], '<=': v[0] <= v[1], '>': v[0] > v[1], '>=': v[0] >= v[1]}[op]


def _q(name, text, out, solv=('z3-4.8', 'cvc5'), timeout=120, extra=None):
    if 'int2bv' in text:
        timeout = min(timeout, 40)          # mixed Int/BV queries either finish fast or not at all
    r = solvers.check(text, solv, timeout, extra)
    out.append({'name': name, 'verdict': r['verdict'], 'per_solver': r['per_solver'], 'n': len(r['per_solver']),
                'time_s': round(sum(p['time_s'] for p in r['per_solver']), 3)})
    return r


def _finish(queries, bad, sample, msg_ok, args=None):
    if bad and bad[0] == 'sat':
        return {'verdict': 'counterexample', 'message': bad[1], 'queries': queries, 'sample': sample, 'args': args,
                'kwargs': {}, 'exception': None}
    if bad:
        return {'verdict': 'inconclusive', 'message': bad[1], 'queries': queries, 'sample': sample}
    return {'verdict': 'confirmed', 'message': msg_ok, 'queries': queries, 'sample': sample}


# ------------------------------------------------------------------------------------------------------ K1 UVARI

def k1_uvari(_p=None):
    """write_struct_uvari: for every integer v, 0 <= v < 2**30 -> canonical 1/2/4-byte UVARI that decodes to v;
    otherwise the struct packer rejects it.  LIA, all of Z."""
    queries = []
    try:
        fn, mod, _src = find_function(P_SW, 'write_struct_uvari')
        ex = Executor(consts=module_int_consts(mod), pack_formats=pack_formats(P_ENUM))
        arg = fn.args.args[0].arg
        paths = ex.run(fn.body, {arg: I('v')})
    except (Untranslatable, KeyError) as e:
        return {'verdict': 'inconclusive', 'message': str(e), 'queries': queries}
    side = ''.join(f'(assert {c})\n' for c in sorted(set(ex.side)))      # only present when bit operators are used
    logic = 'ALL' if ex.side else 'QF_LIA'
    # validate the translation against the real function on boundary inputs
    from dliswriter.utils.internal.struct_writer import write_struct_uvari
    for v in (-1, 0, 1, 127, 128, 129, 255, 256, 16383, 16384, 16385, 65535, 65536, 2 ** 24, 2 ** 30 - 1, 2 ** 30, 2 ** 32):
        try:
            real = bytes(write_struct_uvari(v))
        except struct.error:
            real = None
        mine = 'nopath'
        for (c, out, _e) in paths:
            if evalsmt(c, {'v': v}):
                if out[0] == 'return' and out[1][0] == 'pack':
                    fmt, e = out[1][1], evalsmt(out[1][2][1], {'v': v})
                    try:
                        mine = struct.pack(fmt, e)
                    except struct.error:
                        mine = None
                break
        if mine != real:
            return {'verdict': 'inconclusive', 'message': f'translator validation failed at v={v}: IR {mine} real {real}',
                    'queries': queries}
    bad = None
    sample = {'paths': []}
    for i, (c, out, _e) in enumerate(paths):
        if out[0] != 'return' or out[1][0] != 'pack' or out[1][1] not in WIDTH or out[1][2][0] != 'int':
            return {'verdict': 'inconclusive', 'message': f'path {i}: unexpected outcome {out[0]}', 'queries': queries}
        fmt, e = out[1][1], out[1][2][1]
        w = WIDTH[fmt]
        top = 256 ** w
        if w == 1:
            good = f'(and (>= {e} 0) (< {e} 128) (= {e} v))'
        elif w == 2:
            good = f'(and (>= {e} 32768) (< {e} 49152) (= (- {e} 32768) v) (>= v 128))'
        else:
            good = f'(and (>= {e} 3221225472) (< {e} 4294967296) (= (- {e} 3221225472) v) (>= v 16384))'
        sample['paths'].append({'cond': c, 'format': fmt, 'value': e})
        q1 = f'(set-logic {logic})\n(declare-const v Int)\n{side}(assert {c})\n(assert (and (>= v 0) (< v 1073741824)))\n(assert (not {good}))\n(check-sat)\n(get-value (v))\n'
        r = _q(f'uvari_path{i}_roundtrip', q1, queries)
        if r['verdict'] != 'unsat' and not bad:
            m = solvers.parse_model_ints(r['model'])
            bad = (r['verdict'], f'UVARI path {i} ({fmt}) does not round-trip for v={m.get("v")}', [m.get('v')])
        q2 = f'(set-logic {logic})\n(declare-const v Int)\n{side}(assert {c})\n(assert (or (< v 0) (>= v 1073741824)))\n(assert (and (>= {e} 0) (< {e} {top})))\n(check-sat)\n(get-value (v))\n'
        r = _q(f'uvari_path{i}_rejects', q2, queries)
        if r['verdict'] != 'unsat' and not bad:
            m = solvers.parse_model_ints(r['model'])
            bad = (r['verdict'], f'UVARI path {i} ({fmt}) accepts unrepresentable v={m.get("v")}', [m.get('v')])
    if ex.side:
        sample['side_conditions'] = sorted(set(ex.side))
    return _finish(queries, bad, sample, 'UVARI canonical and total over Z (unsat on z3 and cvc5)' + (' under the bit-operator side conditions (values < 2**64)' if ex.side else ''), bad[2] if bad else None)


# ------------------------------------------------------------------------------------- K2 segment loop, inductive step

def _translate_segmenter():
    pf = pack_formats(P_ENUM)
    fn_ms, mod, _ = find_function(P_LRB, 'LogicalRecordBytes.make_segments')
    fn_mk, _, _ = find_function(P_LRB, 'LogicalRecordBytes.make_segment')
    loop = [s for s in fn_ms.body if isinstance(s, ast.While)]
    if len(loop) != 1:
        raise Untranslatable(fn_ms, '(expected exactly one while loop)')
    loop = loop[0]
    test = ast.unparse(loop.test)
    if test != 'remaining_size > 0':
        raise Untranslatable(loop.test, '(loop guard changed)')
    pre = [s for s in fn_ms.body if s is not loop and not isinstance(s, ast.While)]

    class Ex(Executor):
        def call(self, node, env):
            fn = ast.unparse(node.func)
            if fn in ('self.make_segment', 'SegmentAttributes'):
                args = [self.expr(a, env) for a in node.args]
                kw = {k.arg: self.expr(k.value, env) for k in node.keywords}
                env['__calls__'] = env.get('__calls__', ()) + ((fn, tuple(args), tuple(sorted(kw.items()))),)
                return self.opaque(fn.split('.')[-1])
            return super().call(node, env)

    ex = Ex(consts=module_int_consts(mod), pack_formats=pf, attr_map={'self._size': I('size'),
                                                                     'self._is_eflr': B('is_eflr')})
    # prologue: which caps are rejected, and initial state
    pro = ex.run(pre, {'max_n_bytes': I('cap')})
    body = ex.run(loop.body, {'max_n_bytes': I('cap'), 'start_pos': I('start'), 'remaining_size': I('rem')})
    seg = ex.run(fn_mk.body, {'start_pos': I('s'), 'n_bytes': I('n')})
    return pro, body, seg


def _first_pack(v):
    if v[0] == 'pack':
        return v
    if v[0] in ('concat', 'tuple'):
        for x in v[1]:
            r = _first_pack(x)
            if r:
                return r
    return None


def _simulate(pro, body, seg, L, cap):
    """Run the IR concretely: list of (start, n, seg_size, padded) or 'raise'."""
    for (c, out, e) in pro:
        if evalsmt(c, {'cap': cap, 'size': L}) and out[0] == 'raise':
            return 'raise'
    start, rem = 0, L
    res = []
    guard = 0
    while rem > 0:
        guard += 1
        if guard > 10000:
            return 'diverges'
        envv = {'cap': cap, 'size': L, 'start': start, 'rem': rem}
        for (c, out, e) in body:
            if evalsmt(c, envv):
                calls = [x for x in e.get('__calls__', ()) if x[0] == 'self.make_segment']
                s = evalsmt(calls[0][1][0][1], envv)
                n = evalsmt(calls[0][1][1][1], envv)
                start2 = evalsmt(e['start_pos'][1], envv)
                rem2 = evalsmt(e['remaining_size'][1], envv)
                break
        else:
            return 'nopath'
        env2 = {'s': s, 'n': n, 'size': L}
        for (c, out, e) in seg:
            if evalsmt(c, env2):
                if out[0] == 'raise':
                    return 'raise'
                size = evalsmt(out[1][1][1][1], env2)
                hp = e.get('segment_attributes.has_padding')
                res.append((s, n, size, bool(hp and evalsmt(hp[1], env2))))
                break
        start, rem = start2, rem2
    return res


def k2_segment_step(_p=None):
    """Inductive step of the make_segments loop and the make_segment size arithmetic, for ALL integers
    (no bound on the body length): from any state with rem > 0, start + rem == size, cap even >= 12 the body
    requests exactly one segment [start, start+n) with 1 <= n <= min(cap, rem), advances start by n and rem by -n;
    make_segment(s, n) then returns an even size in [16, cap + 4] equal to 4 + n + pad with n + pad >= 12,
    pad flag <=> pad > 0, is_first <=> s == 0, is_last <=> s + n == size, header length field == size."""
    queries = []
    try:
        pro, body, seg = _translate_segmenter()
    except (Untranslatable, KeyError) as e:
        return {'verdict': 'inconclusive', 'message': str(e), 'queries': queries}
    # ---- validate the translation against the real segmenter
    from dliswriter.logical_record.core.logical_record.logical_record_bytes import LogicalRecordBytes
    cases = 0
    for cap in (12, 14, 22, 24, 26, 100, 8184):
        for L in (1, 5, 11, 12, 13, cap - 1, cap, cap + 1, cap + 11, cap + 12, cap + 13, 2 * cap, 2 * cap + 5, 3 * cap + 7):
            if L < 1:
                continue
            try:
                real = [(sz, bool(bytes(sb)[2] & 1)) for sb, sz in LogicalRecordBytes(bytes(L), b'\x00').make_segments(cap)]
            except ValueError:
                real = 'raise'
            mine = _simulate(pro, body, seg, L, cap)
            mine2 = mine if isinstance(mine, str) else [(x[2], x[3]) for x in mine]
            cases += 1
            if mine2 != real:
                return {'verdict': 'inconclusive', 'queries': queries,
                        'message': f'translator validation failed at L={L} cap={cap}: IR {mine2} real {real}'}
    decl = ('(set-logic QF_LIA)\n(declare-const cap Int)\n(declare-const size Int)\n(declare-const start Int)\n'
            '(declare-const rem Int)\n(declare-const s Int)\n(declare-const n Int)\n(declare-const is_eflr Bool)\n')
    inv = '(and (>= cap 12) (= (mod cap 2) 0) (> rem 0) (>= start 0) (= (+ start rem) size))'
    bad = None
    sample = {'loop_paths': len(body), 'segment_paths': len(seg), 'translator_validation_cases': cases}
    # prologue: never raises for cap >= 12
    for i, (c, out, _e) in enumerate(pro):
        if out[0] == 'raise':
            r = _q(f'prologue_raise{i}', decl + f'(assert (>= cap 12))\n(assert {c})\n(check-sat)\n(get-value (cap))\n', queries)
            if r['verdict'] != 'unsat' and not bad:
                m = solvers.parse_model_ints(r['model'])
                bad = (r['verdict'], f'make_segments raises for capacity {m.get("cap")}', [1, m.get('cap', 12)])
    for i, (c, out, e) in enumerate(body):
        if out[0] == 'raise':
            post = 'false'
        else:
            calls = [x for x in e.get('__calls__', ()) if x[0] == 'self.make_segment']
            if len(calls) != 1 or len(calls[0][1]) != 2 or '__yields__' not in e or len(e['__yields__'][1]) != 1:
                post = 'false'
            else:
                a_s, a_n = calls[0][1][0][1], calls[0][1][1][1]
                rem2, start2 = e['remaining_size'][1], e['start_pos'][1]
                post = (f'(and (= {a_s} start) (>= {a_n} 1) (<= {a_n} cap) (<= {a_n} rem) (= {rem2} (- rem {a_n})) '
                        f'(= {start2} (+ start {a_n})))')
        text = decl + f'(assert {inv})\n(assert {c})\n(assert (not {post}))\n(check-sat)\n(get-value (cap size start rem))\n'
        r = _q(f'loop_step_path{i}', text, queries)
        if r['verdict'] != 'unsat' and not bad:
            m = solvers.parse_model_ints(r['model'])
            bad = (r['verdict'], f'loop step violated from state {m}', [m.get('size', 1), m.get('cap', 12)])
    pre_seg = '(and (>= cap 12) (= (mod cap 2) 0) (>= s 0) (>= n 1) (<= n cap) (<= (+ s n) size))'
    for i, (c, out, e) in enumerate(seg):
        if out[0] == 'raise':
            post = 'false'
        elif out[0] != 'return' or out[1][0] != 'tuple' or len(out[1][1]) != 2 or out[1][1][1][0] != 'int':
            post = 'false'
        else:
            sz = out[1][1][1][1]
            hdr = _first_pack(out[1][1][0])
            sa = [x for x in e.get('__calls__', ()) if x[0] == 'SegmentAttributes']
            hp = e.get('segment_attributes.has_padding')
            if hdr is None or hdr[1] != '>H' or hdr[2][0] != 'int' or len(sa) != 1:
                post = 'false'
            else:
                kw = dict(sa[0][2])
                first = kw.get('is_first', ('bool', 'false'))[1]
                last = kw.get('is_last', ('bool', 'false'))[1]
                eflr = kw.get('is_eflr', ('bool', 'false'))[1]
                padflag = hp[1] if hp else 'false'
                pad = f'(- {sz} 4 n)'
                post = (f'(and (= (mod {sz} 2) 0) (>= {sz} 16) (<= {sz} (+ cap 4)) (>= {pad} 0) (>= (+ n {pad}) 12) '
                        f'(= {padflag} (> {pad} 0)) (= {first} (= s 0)) (= {last} (= (+ s n) size)) (= {eflr} is_eflr) '
                        f'(= {hdr[2][1]} {sz}) (<= {pad} 255))')
        text = decl + f'(assert {pre_seg})\n(assert {c})\n(assert (not {post}))\n(check-sat)\n(get-value (cap size s n))\n'
        r = _q(f'make_segment_path{i}', text, queries)
        if r['verdict'] != 'unsat' and not bad:
            m = solvers.parse_model_ints(r['model'])
            # replay: a whole record whose segmentation passes through (s, n): use size and cap of the model
            bad = (r['verdict'], f'make_segment arithmetic violated for {m}', [m.get('size', 1), m.get('cap', 12)])
    return _finish(queries, bad, sample, 'loop step and segment arithmetic hold for all integers (unsat on z3 and cvc5)',
                   bad[2] if bad else None)


# ------------------------------------------------------------------------------------------- K3 DTIME milliseconds

def _find_ms_expr():
    fn, mod, src = find_function(P_SW, 'write_struct_dtime')
    for node in ast.walk(fn):
        if isinstance(node, ast.Call) and ast.unparse(node.func).endswith('UNORM.convert') and node.args:
            return node.args[0]
    raise Untranslatable(fn, '(no UNORM.convert(...) in write_struct_dtime)')


def _fp(node):
    """FP/BV translation of the millisecond expression: returns ('bv', term64) | ('fp', term)."""
    if isinstance(node, ast.Attribute) and node.attr == 'microsecond':
        return ('bv', '((_ zero_extend 32) us)')
    if isinstance(node, ast.Constant) and isinstance(node.value, int):
        return ('bv', f'(_ bv{node.value} 64)')
    if isinstance(node, ast.Constant) and isinstance(node.value, float):
        return ('fp', f'((_ to_fp 11 53) RNE {node.value!r})')
    if isinstance(node, ast.BinOp) and isinstance(node.op, ast.Div):
        a, b = _tofp(_fp(node.left)), _tofp(_fp(node.right))
        return ('fp', f'(fp.div RNE {a} {b})')
    if isinstance(node, ast.Call) and ast.unparse(node.func) == 'round' and len(node.args) == 1:
        x = _tofp(_fp(node.args[0]))
        return ('bv', f'((_ fp.to_sbv 64) RNE (fp.roundToIntegral RNE {x}))')     # round(): half to even
    if isinstance(node, ast.Call) and ast.unparse(node.func) == 'int' and len(node.args) == 1:
        x = _fp(node.args[0])
        if x[0] == 'bv':
            return x
        return ('bv', f'((_ fp.to_sbv 64) RTZ {x[1]})')
    if isinstance(node, ast.Call) and ast.unparse(node.func) in ('min', 'max') and len(node.args) == 2:
        a, b = _fp(node.args[0]), _fp(node.args[1])
        if a[0] == b[0] == 'bv':
            op = 'bvsle' if ast.unparse(node.func) == 'min' else 'bvsge'
            return ('bv', f'(ite ({op} {a[1]} {b[1]}) {a[1]} {b[1]})')
    if isinstance(node, ast.BinOp) and isinstance(node.op, ast.FloorDiv):
        a, b = _fp(node.left), _fp(node.right)
        if a[0] == b[0] == 'bv':
            return ('bv', f'(bvudiv {a[1]} {b[1]})')
    raise Untranslatable(node, '(outside the FP kernel subset)')


def _tofp(v):
    if v[0] == 'fp':
        return v[1]
    return f'((_ to_fp 11 53) RNE {v[1]})'            # signed 64-bit -> double (exact below 2**53)


def k3_dtime_ms(_p=None):
    """The millisecond field of DTIME: for every microsecond 0..999999 the written UNORM is in 0..999 and within
    half a millisecond of the input (999 for the last half millisecond).  IEEE-754 doubles, not reals."""
    queries = []
    try:
        node = _find_ms_expr()
        t = _fp(node)
        if t[0] != 'bv':
            raise Untranslatable(node, '(result is not an integer)')
    except (Untranslatable, KeyError) as e:
        return {'verdict': 'inconclusive', 'message': str(e), 'queries': queries}
    expr_src = ast.unparse(node)
    # validate the translation on boundary microseconds by evaluating the Python expression itself
    ms = t[1]
    text = ('(set-logic QF_BVFP)\n(declare-const us (_ BitVec 32))\n(assert (bvule us (_ bv999999 32)))\n'
            f'(define-fun ms () (_ BitVec 64) {ms})\n'
            '(define-fun us64 () (_ BitVec 64) ((_ zero_extend 32) us))\n'
            '(assert (not (and (bvsge ms (_ bv0 64)) (bvsle ms (_ bv999 64))\n'
            '  (ite (bvuge us64 (_ bv999500 64)) (= ms (_ bv999 64))\n'
            '   (and (bvsle (bvsub (bvmul ms (_ bv1000 64)) us64) (_ bv500 64))\n'
            '        (bvsle (bvsub us64 (bvmul ms (_ bv1000 64))) (_ bv500 64)))))))\n'
            '(check-sat)\n(get-value (us))\n')
    r = _q('dtime_ms', text, queries, solv=('z3-4.8', 'cvc5'), timeout=300)
    sample = {'expression': expr_src, 'smt_term': ms}
    bad = None
    if r['verdict'] != 'unsat':
        m = solvers.parse_model_ints(r['model'])
        bad = (r['verdict'], f'millisecond field wrong for microsecond={m.get("us")}', [2000, 1, 1, 0, 0, 0, m.get('us', 0)])
    return _finish(queries, bad, sample, f'{expr_src}: within 0.5 ms and in 0..999 for every microsecond (unsat on z3 and cvc5)',
                   bad[2] if bad else None)


# ------------------------------------------------------------------------------------ K4 float(int).is_integer()

def k4_int_is_integer(_p=None):
    """Lemma behind the kint/kfloat shims: in NumericAttribute._int_parser, ``float(value).is_integer()`` is True for
    every int in the signed 64-bit range (the nearest double of an integer is integral)."""
    queries = []
    try:
        fn, _m, _s = find_function(P_SUB, 'NumericAttribute._int_parser')
        src = ast.unparse(fn)
        if 'float(value).is_integer()' not in src or 'return int(value)' not in src:
            raise Untranslatable(fn, '(_int_parser no longer has the shape the shim stands for)')
    except (Untranslatable, KeyError) as e:
        return {'verdict': 'inconclusive', 'message': str(e), 'queries': queries}
    text = ('(set-logic QF_BVFP)\n(declare-const v (_ BitVec 64))\n'
            '(define-fun f () (_ FloatingPoint 11 53) ((_ to_fp 11 53) RNE v))\n'
            '(assert (not (fp.eq f (fp.roundToIntegral RNE f))))\n(check-sat)\n(get-value (v))\n')
    r = _q('float_of_int_is_integral', text, queries, timeout=300)
    bad = None
    if r['verdict'] != 'unsat':
        bad = (r['verdict'], 'float(int) not integral?', None)
    return _finish(queries, bad, {'function': 'NumericAttribute._int_parser'}, 'float(v).is_integer() for all 64-bit v')


# ------------------------------------------------------------------------------------------------- K5 regex language

def _re_to_smt(pattern):
    try:
        import re._parser as sre_parse
    except ImportError:  # pragma: no cover
        import sre_parse
    tree = sre_parse.parse(pattern)

    def ch(c):
        return '"' + (chr(c) if 32 <= c < 127 and chr(c) not in '"\\' else f'\\u{{{c:x}}}') + '"'

    def conv(items):
        parts = [one(op, av) for op, av in items]
        if not parts:
            return '(str.to_re "")'
        return parts[0] if len(parts) == 1 else f'(re.++ {" ".join(parts)})'

    def one(op, av):
        name = str(op)
        if name == 'LITERAL':
            return f'(str.to_re {ch(av)})'
        if name == 'IN':
            alts = []
            for o2, a2 in av:
                n2 = str(o2)
                if n2 == 'LITERAL':
                    alts.append(f'(str.to_re {ch(a2)})')
                elif n2 == 'RANGE':
                    alts.append(f'(re.range {ch(a2[0])} {ch(a2[1])})')
                else:
                    raise Untranslatable(pattern, f'(regex class item {n2})')
            return alts[0] if len(alts) == 1 else f'(re.union {" ".join(alts)})'
        if name in ('MAX_REPEAT', 'MIN_REPEAT'):
            lo, hi, sub = av
            s = conv(list(sub))
            if lo == 0 and str(hi) == 'MAXREPEAT':
                return f'(re.* {s})'
            if lo == 1 and str(hi) == 'MAXREPEAT':
                return f'(re.+ {s})'
            if lo == 0 and hi == 1:
                return f'(re.opt {s})'
            raise Untranslatable(pattern, f'(repeat {lo},{hi})')
        if name == 'SUBPATTERN':
            return conv(list(av[3]))
        if name == 'BRANCH':
            return '(re.union ' + ' '.join(conv(list(b)) for b in av[1]) + ')'
        if name == 'AT':
            # ^ at the very beginning is redundant for match()/fullmatch(); $ (no MULTILINE) matches at the end of the
            # string *or just before a final newline* - exactly CPython's semantics
            if str(av) in ('AT_BEGINNING', 'AT_BEGINNING_STRING'):
                return '(str.to_re "")'
            if str(av) == 'AT_END':
                return '(re.opt (str.to_re "\\u{a}"))'
            if str(av) == 'AT_END_STRING':
                return '(str.to_re "")'
        raise Untranslatable(pattern, f'(regex construct {name})')

    return conv(list(tree))


def k5_hc_regex(_p=None):
    """HC_STRING_PATTERN, as used with fullmatch, accepts exactly [A-Z0-9_-]+ for strings of any length."""
    queries = []
    try:
        with open(P_VC) as f:
            mod = ast.parse(f.read())
        pat = None
        for st in mod.body:
            if isinstance(st, ast.Assign) and ast.unparse(st.targets[0]) == 'HC_STRING_PATTERN':
                call = st.value
                if isinstance(call, ast.Call) and ast.unparse(call.func) == 're.compile' and len(call.args) == 1 \
                        and not call.keywords:
                    pat = ast.literal_eval(call.args[0])
        if pat is None:
            raise Untranslatable(mod, '(HC_STRING_PATTERN = re.compile(<literal>) not found)')
        fnv, _m, _s = find_function(P_VC, 'validate_string')
        src_v = ast.unparse(fnv)
        impl = _re_to_smt(pat)
        if 'HC_STRING_PATTERN.fullmatch(s)' in src_v:
            pass
        elif 'HC_STRING_PATTERN.match(s)' in src_v:
            # match(): the pattern must match a prefix; what follows is unconstrained unless the pattern ends with an
            # end anchor (then nothing may follow the part the anchor allows)
            if not (pat.endswith('$') or pat.endswith('\\Z')):
                impl = f'(re.++ {impl} re.all)'
        else:
            raise Untranslatable(fnv, '(validate_string uses neither fullmatch nor match on HC_STRING_PATTERN)')
        if 'is None' not in src_v:
            raise Untranslatable(fnv, '(the match result is not tested with "is None")')
    except (Untranslatable, KeyError) as e:
        return {'verdict': 'inconclusive', 'message': str(e), 'queries': queries}
    spec = '(re.+ (re.union (re.range "A" "Z") (re.range "0" "9") (str.to_re "_") (str.to_re "-")))'
    text = (f'(set-logic QF_S)\n(declare-const s String)\n'
            f'(assert (not (= (str.in_re s {impl}) (str.in_re s {spec}))))\n(check-sat)\n(get-value (s))\n')
    r = _q('hc_pattern_language', text, queries, solv=('z3-4.8', 'z3-5.1'), timeout=120)
    r2 = _q('hc_pattern_language_cvc5', text.replace('(set-logic QF_S)', '(set-logic QF_SLIA)'), queries, solv=('cvc5',),
            timeout=120, extra={'cvc5': ['--strings-exp']})
    bad = None
    for rr in (r, r2):
        if rr['verdict'] != 'unsat' and not bad:
            m = re.search(r'\(\(s "(.*)"\)\)', rr['model'] or '')
            w = m.group(1) if m else ''
            w = re.sub(r'\\u\{([0-9a-fA-F]+)\}', lambda mm: chr(int(mm.group(1), 16)), w)
            bad = (rr['verdict'], f'pattern {pat!r} and [A-Z0-9_-]+ differ on {w!r}', [w, True])
    return _finish(queries, bad, {'pattern': pat, 'smt': impl}, f'{pat!r} == [A-Z0-9_-]+ as languages (all lengths)',
                   bad[2] if bad else None)
