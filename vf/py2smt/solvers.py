"""Discharge SMT-LIB2 queries on independent solvers: /usr/bin/z3 (4.8.12), z3-new (5.1) and cvc5 (binary 1.0.3).

verdict(query) = 'unsat' only if *every* solver used answers unsat; 'sat' if one answers sat (the model is returned for
replay); anything else ('unknown', timeout, an '(error' line, disagreement) is 'inconclusive'.
"""
import os
import re
import shutil
import subprocess
import tempfile
import time


def _run(cmd, text, timeout, use_file=False):
    t0 = time.time()
    path = None
    try:
        if use_file:
            fd, path = tempfile.mkstemp(suffix='.smt2', prefix='vfq_')
            with os.fdopen(fd, 'w') as f:
                f.write(text)
            p = subprocess.run(cmd + [path], capture_output=True, text=True, timeout=timeout)
        else:
            p = subprocess.run(cmd, input=text, capture_output=True, text=True, timeout=timeout)
        out = p.stdout + p.stderr
    except subprocess.TimeoutExpired:
        return 'timeout', '', time.time() - t0
    finally:
        if path:
            try:
                os.remove(path)
            except OSError:
                pass
    dt = time.time() - t0
    # an '(error' line BEFORE the verdict means an assertion may have been dropped: inconclusive.  After an
    # 'unsat' verdict the only thing that follows is our own (get-value ...), which legitimately errors.
    lines = [l.strip() for l in out.splitlines() if l.strip()]
    for k, l in enumerate(lines):
        if l in ('sat', 'unsat', 'unknown'):
            if l == 'sat' and any('(error' in x for x in lines[k + 1:]):
                return 'error', out[:500], dt
            return l, out, dt
        if '(error' in l or l.lower().startswith('error') or 'Parse Error' in l:
            return 'error', out[:500], dt
    return 'error', out[:500], dt


SOLVERS = {
    'z3-4.8': (['z3', '-in'], False),
    'z3-5.1': (['z3-new', '-in'], False),
    'cvc5': (['cvc5', '--lang=smt2'], True),
}


def available():
    return [k for k, (cmd, _f) in SOLVERS.items() if shutil.which(cmd[0])]


def check(text, solvers=('z3-4.8', 'cvc5'), timeout=120, extra=None):
    """-> dict(verdict, per_solver=[{solver, answer, time_s}], model=text)"""
    per = []
    model = ''
    if '(set-option :produce-models' not in text:
        text = '(set-option :produce-models true)\n' + text
    for s in solvers:
        cmd, use_file = SOLVERS[s]
        cmd = list(cmd) + list((extra or {}).get(s, []))
        ans, out, dt = _run(cmd, text, timeout, use_file)
        per.append({'solver': s, 'answer': ans, 'time_s': round(dt, 3)})
        if ans == 'sat' and not model:
            model = out
    answers = {p['answer'] for p in per}
    if answers == {'unsat'}:
        v = 'unsat'
    elif 'sat' in answers and not (answers - {'sat', 'unknown', 'timeout'}):
        v = 'sat'
    else:
        v = 'inconclusive'
    return {'verdict': v, 'per_solver': per, 'model': model}


def parse_model_ints(model_text):
    """'((v 128) (w (- 3)))' -> {'v': 128, 'w': -3}"""
    out = {}
    for m in re.finditer(r'\(\s*([A-Za-z_][\w.]*)\s+(\(-\s*\d+\)|-?\d+|true|false|#x[0-9a-fA-F]+|#b[01]+)\s*\)', model_text):
        k, v = m.group(1), m.group(2)
        if v in ('true', 'false'):
            out[k] = v == 'true'
        elif v.startswith('(-'):
            out[k] = -int(re.sub(r'[^\d]', '', v))
        elif v.startswith('#x'):
            out[k] = int(v[2:], 16)
        elif v.startswith('#b'):
            out[k] = int(v[2:], 2)
        else:
            out[k] = int(v)
    return out
