"""Import hook: load ``dliswriter.*`` from /repo/src *at check time* with one AST rewrite.

The rewrite (the only transformation applied to the code under analysis):
  * expression statements ``logger.<level>(...)`` become ``pass``;
  * f-string / ``+``-concatenated message arguments of ``raise X(...)`` become a constant string
    (same exception type, same control flow).
Reason: formatting symbolic values forces CrossHair to realise them (DESIGN 2.2).
Formatting that *is* semantics (``str(sequence_number)``, ``'{0:04b}'.format(month)``) is untouched.

``install()`` must be called before the first ``import dliswriter``.  Replays never call it.
"""
import ast
import hashlib
import importlib.abc
import importlib.machinery
import importlib.util
import os
import sys

REPO_SRC = os.environ.get('VF_REPO_SRC', '/repo/src')
LEVELS = {'debug', 'info', 'warning', 'error', 'exception', 'critical', 'log'}

SOURCE_HASHES = {}      # module name -> sha256 of the file as read
REWRITES = {}           # module name -> (n_logger_calls_removed, n_raise_messages_folded)


def _has_dynamic_text(node):
    for n in ast.walk(node):
        if isinstance(n, (ast.JoinedStr, ast.FormattedValue)):
            return True
    return False


def _literal_text(node):
    parts = []
    for n in ast.walk(node):
        if isinstance(n, ast.Constant) and isinstance(n.value, str):
            parts.append(n.value)
    return (''.join(parts))[:120] or 'message'


class _Strip(ast.NodeTransformer):
    def __init__(self):
        self.n_log = 0
        self.n_raise = 0

    def visit_Expr(self, node):
        v = node.value
        if (isinstance(v, ast.Call) and isinstance(v.func, ast.Attribute) and isinstance(v.func.value, ast.Name)
                and v.func.value.id == 'logger' and v.func.attr in LEVELS):
            self.n_log += 1
            return ast.copy_location(ast.Pass(), node)
        return self.generic_visit(node)

    def visit_Raise(self, node):
        self.generic_visit(node)
        if isinstance(node.exc, ast.Call):
            new_args = []
            for a in node.exc.args:
                if _has_dynamic_text(a):
                    self.n_raise += 1
                    new_args.append(ast.copy_location(ast.Constant(_literal_text(a)), a))
                else:
                    new_args.append(a)
            node.exc.args = new_args
        return node

    def visit_Assign(self, node):
        # message = (f"...") assigned to a local later raised / logged: fold when the target is named m/message/msg
        self.generic_visit(node)
        if (len(node.targets) == 1 and isinstance(node.targets[0], ast.Name)
                and node.targets[0].id in ('m', 'message', 'msg', 'rem') and _has_dynamic_text(node.value)):
            self.n_raise += 1
            node.value = ast.copy_location(ast.Constant(_literal_text(node.value)), node.value)
        return node


class _Loader(importlib.abc.SourceLoader):
    def __init__(self, fullname, path):
        self.fullname = fullname
        self.path = path

    def get_filename(self, fullname):
        return self.path

    def get_data(self, path):
        with open(path, 'rb') as f:
            return f.read()

    def source_to_code(self, data, path, *, _optimize=-1):
        SOURCE_HASHES[self.fullname] = hashlib.sha256(data).hexdigest()
        tree = ast.parse(data, filename=path)
        st = _Strip()
        tree = st.visit(tree)
        ast.fix_missing_locations(tree)
        REWRITES[self.fullname] = (st.n_log, st.n_raise)
        return compile(tree, path, 'exec', dont_inherit=True, optimize=_optimize)

    # never use / write .pyc for rewritten modules
    def path_stats(self, path):
        raise OSError

    def set_data(self, path, data):
        pass


class _Finder(importlib.abc.MetaPathFinder):
    def find_spec(self, fullname, path, target=None):
        if fullname != 'dliswriter' and not fullname.startswith('dliswriter.'):
            return None
        rel = fullname.split('.')
        base = os.path.join(REPO_SRC, *rel)
        if os.path.isdir(base) and os.path.isfile(os.path.join(base, '__init__.py')):
            p = os.path.join(base, '__init__.py')
            return importlib.util.spec_from_file_location(fullname, p, loader=_Loader(fullname, p),
                                                          submodule_search_locations=[base])
        p = base + '.py'
        if os.path.isfile(p):
            return importlib.util.spec_from_file_location(fullname, p, loader=_Loader(fullname, p))
        return None


_installed = False


def install():
    global _installed
    if _installed:
        return
    if any(m == 'dliswriter' or m.startswith('dliswriter.') for m in sys.modules):
        raise RuntimeError("vf.loader.install() called after dliswriter was imported")
    sys.meta_path.insert(0, _Finder())
    sys.dont_write_bytecode = True
    _installed = True
