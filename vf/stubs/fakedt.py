"""FakeDT: duck-typed ``datetime`` (DESIGN 2.3).

Contract: ``astimezone(timezone.utc)`` returns an object whose year/month/day/hour/minute/second/microsecond are the
UTC calendar fields of the instant (here: the symbolic fields the harness supplies); the call and its argument are
recorded so the harness can require the conversion to UTC to happen.  CrossHair's pure-Python datetime cannot call the
C ``timezone.utcoffset`` (TypeError), hence the stub.
"""
from datetime import timezone


class FakeDT:
    def __init__(self, year, month, day, hour, minute, second, microsecond, calls=None, utc=None):
        self.year, self.month, self.day = year, month, day
        self.hour, self.minute, self.second, self.microsecond = hour, minute, second, microsecond
        self.calls = calls if calls is not None else []
        self.utc = utc          # the same instant in UTC (another FakeDT); None: this object already is in UTC

    def astimezone(self, tz=None):
        self.calls.append(('astimezone', 'UTC' if tz is timezone.utc else repr(tz)))
        u = self.utc if self.utc is not None else self
        return FakeDT(u.year, u.month, u.day, u.hour, u.minute, u.second, u.microsecond, self.calls)
