"""npvalues: value-level stand-in for numpy on small *integer* index arrays (C13 only).

Contract (numpy's documented same-dtype arithmetic): an array is a list of (symbolic) ints plus an integer dtype;
``np.diff`` subtracts neighbours and wraps modulo 2**bits in the array's dtype (unsigned) or into the signed range
(two's complement) - exactly what numpy does without upcasting; ``astype(int64)`` widens; ``np.unique`` sorts and
removes duplicates; comparisons are element-wise; ``np.median`` of k values is the middle one / mean of the two middle
ones (a Python float); true division / power / ``<`` produce Python floats (only reached on non-uniform data).
"""
from vf.stubs.memio import StubGap

BITS = {'int8': 8, 'int16': 16, 'int32': 32, 'int64': 64, 'uint8': 8, 'uint16': 16, 'uint32': 32, 'uint64': 64}


class integer:
    pass


class IDtype:
    def __init__(self, name):
        self.name = name

    @property
    def signed(self):
        return not self.name.startswith('u')

    def __eq__(self, o):
        return isinstance(o, IDtype) and o.name == self.name

    def __hash__(self):
        return hash(self.name)


int64 = IDtype('int64')


def issubdtype(dt, kind):
    if kind is integer:
        return isinstance(dt, IDtype)
    raise StubGap('issubdtype kind')


def wrap(v, dt):
    bits = BITS[dt.name]
    m = 1
    for _ in range(bits):
        m = m * 2
    r = v % m
    if dt.signed and r >= m // 2:
        r = r - m
    return r


class VBool:
    def __init__(self, vals):
        self.vals = vals

    def all(self):
        for v in self.vals:
            if not v:
                return False
        return True


class VArr:
    def __init__(self, vals, dt):
        self.vals, self.dtype = list(vals), dt

    @property
    def shape(self):
        return (len(self.vals),)

    @property
    def ndim(self):
        return 1

    @property
    def size(self):
        return len(self.vals)

    def __len__(self):
        return len(self.vals)

    def __getitem__(self, k):
        if isinstance(k, slice):
            return VArr(self.vals[k], self.dtype)
        return self.vals[k]

    def astype(self, dt):
        if not isinstance(dt, IDtype):
            raise StubGap('astype target')
        return VArr([wrap(v, dt) for v in self.vals], dt)

    def min(self):
        m = self.vals[0]
        for v in self.vals[1:]:
            if v < m:
                m = v
        return m

    def max(self):
        m = self.vals[0]
        for v in self.vals[1:]:
            if v > m:
                m = v
        return m

    def __eq__(self, o):
        return VBool([v == o for v in self.vals])

    def __ge__(self, o):
        return VBool([v >= o for v in self.vals])

    def __le__(self, o):
        return VBool([v <= o for v in self.vals])

    def __lt__(self, o):
        return VBool([v < o for v in self.vals])

    # float kernel of the near-uniform tolerance test: outside the claim.  Its outcome is an arbitrary boolean
    # (TOLERANCE_ORACLE[0], a symbolic harness argument), so both outcomes are explored wherever it is consulted.
    def __truediv__(self, o):
        return _Opaque()

    def __rsub__(self, o):
        return _Opaque()

    def __pow__(self, k):
        return _Opaque()


def diff(a):
    return VArr([wrap(a.vals[i + 1] - a.vals[i], a.dtype) for i in range(len(a.vals) - 1)], a.dtype)


def unique(a):
    out = []
    for v in sorted(a.vals):
        if not out or out[-1] != v:
            out.append(v)
    return VArr(out, a.dtype)


TOLERANCE_ORACLE = [False]


class _Opaque:
    def __truediv__(self, o):
        return _Opaque()

    def __rsub__(self, o):
        return _Opaque()

    def __pow__(self, k):
        return _Opaque()

    def __lt__(self, o):
        return _Opaque()

    def all(self):
        return TOLERANCE_ORACLE[0]


class MedVal:
    """Median as an exact fraction num/den; only ``== 0`` is ever asked of it by the code under test."""

    def __init__(self, num, den):
        self.num, self.den = num, den

    def __eq__(self, o):
        return self.num == o * self.den

    def __ne__(self, o):
        return not self.__eq__(o)

    def __rtruediv__(self, o):
        return _Opaque()


class _Med:
    def __init__(self, v):
        self.v = v

    def item(self):
        return self.v


def median(a):
    s = sorted(a.vals)
    n = len(s)
    if n == 0:
        raise StubGap('median of an empty array')
    if n % 2:
        return _Med(MedVal(s[n // 2], 1))
    return _Med(MedVal(s[n // 2 - 1] + s[n // 2], 2))


class VArr2D:
    """A 2-D array of n rows x w columns as far as the frame set-up looks at it (shape, size, ndim, whole-array slice,
    min / max as opaque tokens)."""

    def __init__(self, n, w):
        self.n, self.w = n, w

    @property
    def shape(self):
        return (self.n, self.w)

    @property
    def ndim(self):
        return 2

    @property
    def size(self):
        return self.n * self.w

    def __len__(self):
        return self.n

    def __getitem__(self, k):
        if isinstance(k, slice) and k == slice(None, None, None):
            return self
        raise StubGap('VArr2D indexing')

    def min(self):
        return -5

    def max(self):
        return 500
