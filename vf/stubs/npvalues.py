"""npvalues: value-level stand-in for numpy on small *integer* index arrays (C13 only).

Contract (numpy's documented same-dtype arithmetic): an array is a list of (symbolic) ints plus an integer dtype;
``np.diff`` subtracts neighbours and wraps modulo 2**bits in the array's dtype (unsigned) or into the signed range
(two's complement) - exactly what numpy does without upcasting; ``astype(int64)`` widens; ``np.unique`` sorts and
removes duplicates; comparisons are element-wise; ``np.median`` of k values is the middle one / mean of the two middle
ones (a Python float); true division / power / ``<`` produce Python floats (only reached on non-uniform data).
"""
from vf.stubs.memio import StubGap

BITS = {'int8': 8, 'int16': 16, 'int32': 32, 'int64': 64, 'uint8': 8, 'uint16': 16, 'uint32': 32, 'uint64': 64}


class integer:
    pass


class floating:
    pass


class IDtype:
    def __init__(self, name):
        self.name = name

    @property
    def signed(self):
        return not self.name.startswith('u')

    def __eq__(self, o):
        return isinstance(o, IDtype) and o.name == self.name

    def __hash__(self):
        return hash(self.name)


int64 = IDtype('int64')
int8, int16, int32 = IDtype('int8'), IDtype('int16'), IDtype('int32')
uint8, uint16, uint32, uint64 = IDtype('uint8'), IDtype('uint16'), IDtype('uint32'), IDtype('uint64')


def _as_idtype(dt):
    if isinstance(dt, IDtype):
        return dt
    nm = getattr(dt, 'name', None) or getattr(dt, '__name__', None)
    if nm not in BITS:
        raise StubGap(f'integer dtype expected, got {dt!r}')
    return IDtype(nm)


def promote_types(a, b):
    """numpy's promotion of two integer dtypes: same signedness -> the wider; mixed -> the signed type that holds both."""
    a, b = _as_idtype(a), _as_idtype(b)
    (ba, bb) = (BITS[a.name], BITS[b.name])
    if a.signed == b.signed:
        return a if ba >= bb else b
    (s_, u_) = (a, b) if a.signed else (b, a)
    (bs, bu) = (BITS[s_.name], BITS[u_.name])
    if bs > bu:
        return s_
    if bu >= 64:
        raise StubGap('promotion of uint64 with a signed type (float64)')
    return IDtype('int' + str(bu * 2))


result_type = promote_types


class FDtype:
    """float64 holding integer-valued finite numbers of magnitude < 2**52 (their sums / differences are exact in
    binary64, so integer arithmetic IS the float arithmetic) or NaN (the sentinel NAN below)."""
    name = 'float64'
    signed = True

    def __eq__(self, o):
        return isinstance(o, FDtype)

    def __hash__(self):
        return hash('float64')


float64 = FDtype()


class _NaN(float):
    """IEEE NaN as numpy treats it (a float: every ordered comparison and == is False, != is True - inherited);
    arithmetic gives back this very object, so that ``v is NAN`` identifies it everywhere in the stub."""

    def __new__(cls):
        return float.__new__(cls, 'nan')

    def __hash__(self):
        return 0

    def _nan(self, *a):
        return self

    __add__ = __radd__ = __sub__ = __rsub__ = __mul__ = __rmul__ = __truediv__ = __rtruediv__ = __pow__ = _nan
    __neg__ = __abs__ = __pos__ = _nan

    def item(self):
        return self

    def __repr__(self):
        return 'nan'


NAN = _NaN()


def isnan(a):
    if isinstance(a, VArr):
        return VBool([v is NAN for v in a.vals])
    return a is NAN


def issubdtype(dt, kind):
    if kind is integer:
        return isinstance(dt, IDtype)
    if kind is floating:
        return isinstance(dt, FDtype)
    raise StubGap('issubdtype kind')


def wrap(v, dt):
    if v is NAN or isinstance(dt, FDtype):
        return v
    bits = BITS[dt.name]
    m = 1
    for _ in range(bits):
        m = m * 2
    # in-range values first: keeps the modulo out of the path condition of the common case
    if dt.signed:
        if -(m // 2) <= v < m // 2:
            return v
    elif 0 <= v < m:
        return v
    r = v % m
    if dt.signed and r >= m // 2:
        r = r - m
    return r


class VBool:
    def __init__(self, vals):
        self.vals = vals

    def all(self):
        for v in self.vals:
            if not v:
                return False
        return True

    def any(self):
        for v in self.vals:
            if v:
                return True
        return False


class VArr:
    def __init__(self, vals, dt):
        self.vals, self.dtype = list(vals), dt

    @property
    def shape(self):
        return (len(self.vals),)

    @property
    def ndim(self):
        return 1

    @property
    def size(self):
        return len(self.vals)

    def __len__(self):
        return len(self.vals)

    def __getitem__(self, k):
        if isinstance(k, slice):
            return VArr(self.vals[k], self.dtype)
        return self.vals[k]

    def astype(self, dt, *a, **k):
        if isinstance(dt, FDtype) and isinstance(self.dtype, FDtype):
            return VArr(self.vals, dt)
        if isinstance(self.dtype, FDtype):
            raise StubGap('cast of a float array')
        if not isinstance(dt, IDtype):
            # a real numpy integer dtype / scalar type (what ChannelItem.cast_dtype holds)
            nm = getattr(dt, 'name', None) or getattr(dt, '__name__', None)
            if nm not in BITS:
                raise StubGap(f'astype target {dt!r}')
            dt = IDtype(nm)
        return VArr([wrap(v, dt) for v in self.vals], dt)

    def copy(self):
        return VArr(self.vals, self.dtype)

    def min(self):
        for v in self.vals:
            if v is NAN:
                return NAN                 # numpy: min / max of an array holding a NaN is NaN
        m = self.vals[0]
        for v in self.vals[1:]:
            if v < m:
                m = v
        return m

    def max(self):
        for v in self.vals:
            if v is NAN:
                return NAN
        m = self.vals[0]
        for v in self.vals[1:]:
            if v > m:
                m = v
        return m

    def __eq__(self, o):
        return VBool([v == o for v in self.vals])

    def __ge__(self, o):
        return VBool([v >= o for v in self.vals])

    def __le__(self, o):
        return VBool([v <= o for v in self.vals])

    def __lt__(self, o):
        return VBool([v < o for v in self.vals])

    # the near-uniform tolerance test: exact rational arithmetic (QArr below); where the exact value is within a
    # relative 1e-6 of the constant compared against, float rounding could decide either way and the outcome is the
    # arbitrary boolean TOLERANCE_ORACLE[0] (a symbolic harness argument)
    def _q(self):
        return QArr([(NAN if v is NAN else MedVal(v, 1)) for v in self.vals])

    def __truediv__(self, o):
        return self._q() / o

    def __rsub__(self, o):
        return o - self._q()

    def __sub__(self, o):
        return self._q() - o

    def __pow__(self, k):
        return self._q() ** k

    def __abs__(self):
        return VArr([(v if (v is NAN or v >= 0) else -v) for v in self.vals], self.dtype)


def asarray(a, *args, **kw):
    if isinstance(a, VArr):
        return a
    raise StubGap('asarray of a non-array')


def diff(a):
    out = []
    for i in range(len(a.vals) - 1):
        (x, y) = (a.vals[i], a.vals[i + 1])
        out.append(NAN if (x is NAN or y is NAN) else wrap(y - x, a.dtype))
    return VArr(out, a.dtype)


def unique(a):
    out = []
    fin = [v for v in a.vals if v is not NAN]
    for v in sorted(fin):
        if not out or out[-1] != v:
            out.append(v)
    if len(fin) != len(a.vals):
        out.append(NAN)                    # numpy >= 1.21: all NaNs collapse into one, sorted last
    return VArr(out, a.dtype)


TOLERANCE_ORACLE = [False]
EXACT_TOL = [False]      # False: every comparison of derived rationals is the arbitrary oracle (no non-linear terms)


def _as_q(o):
    if isinstance(o, MedVal):
        return o
    if isinstance(o, bool):
        raise StubGap('arithmetic with a bool')
    if isinstance(o, int):
        return MedVal(o, 1)
    if isinstance(o, float):
        from fractions import Fraction
        f = Fraction(o)                       # the exact value of the (concrete) float constant
        return MedVal(f.numerator, f.denominator)
    raise StubGap(f'arithmetic with {type(o).__name__}')


class MedVal:
    """An exact rational num/den with den > 0 (num may be a symbolic int): the median, and every value derived from it
    by the tolerance test."""

    def __init__(self, num, den):
        self.num, self.den = num, den

    def __eq__(self, o):
        o = _as_q(o)
        return self.num * o.den == o.num * self.den

    def __ne__(self, o):
        return not self.__eq__(o)

    def __hash__(self):
        raise StubGap('hash of a rational')

    def _cmp(self, o):
        """-1 / 0 / 1 by exact arithmetic; None inside the band where float rounding may decide either way."""
        if not EXACT_TOL[0] and not isinstance(o, int):
            return None
        o = _as_q(o)
        lhs = self.num * o.den
        rhs = o.num * self.den
        gap = lhs - rhs
        if gap < 0:
            gap = -gap
        mag = rhs if rhs >= 0 else -rhs
        if gap * 1000000 <= mag and gap != 0:
            return None
        if lhs < rhs:
            return -1
        if lhs > rhs:
            return 1
        return 0

    # inside the band the arbitrary outcome is an arbitrary ORDER (self < o iff the oracle says so): "x < c" and
    # "x >= c" stay complementary, as they are for any two floats
    def __lt__(self, o):
        c = self._cmp(o)
        return TOLERANCE_ORACLE[0] if c is None else c < 0

    def __le__(self, o):
        c = self._cmp(o)
        return TOLERANCE_ORACLE[0] if c is None else c <= 0

    def __gt__(self, o):
        c = self._cmp(o)
        return (not TOLERANCE_ORACLE[0]) if c is None else c > 0

    def __ge__(self, o):
        c = self._cmp(o)
        return (not TOLERANCE_ORACLE[0]) if c is None else c >= 0

    def __neg__(self):
        return MedVal(-self.num, self.den)

    def __abs__(self):
        return MedVal(self.num if self.num >= 0 else -self.num, self.den)

    def __add__(self, o):
        o = _as_q(o)
        return MedVal(self.num * o.den + o.num * self.den, self.den * o.den)

    __radd__ = __add__

    def __sub__(self, o):
        o = _as_q(o)
        if o.den == 1:
            return MedVal(self.num - o.num * self.den, self.den)
        if self.den == 1:
            return MedVal(self.num * o.den - o.num, o.den)
        return MedVal(self.num * o.den - o.num * self.den, self.den * o.den)

    def __rsub__(self, o):
        return _as_q(o) - self

    def __mul__(self, o):
        o = _as_q(o)
        return MedVal(self.num * o.num, self.den * o.den)

    __rmul__ = __mul__

    def __truediv__(self, o):
        o = _as_q(o)
        if o.num == 0:
            raise ZeroDivisionError('division by zero')
        if self.den == 1:
            if o.num > 0:
                return MedVal(self.num * o.den, o.num)
            return MedVal(-(self.num * o.den), -o.num)
        if o.num > 0:
            return MedVal(self.num * o.den, self.den * o.num)
        return MedVal(-(self.num * o.den), -(self.den * o.num))

    def __rtruediv__(self, o):
        return _as_q(o) / self

    def __pow__(self, k):
        if k != 2:
            raise StubGap('power other than 2')
        return SqVal(self)


class SqVal:
    """q**2 kept unevaluated (a product of two symbolic numbers is non-linear): ``q**2 < c`` is decided as
    ``|q| < sqrt(c)`` with sqrt(c) enclosed in rationals 1e-6 apart; between them the outcome is the arbitrary oracle."""

    def __init__(self, q):
        self.q = q

    def _cmp(self, c):
        if isinstance(c, SqVal):
            a, b = abs(self.q), abs(c.q)
            if a.den is b.den:
                return -1 if a.num < b.num else (1 if a.num > b.num else 0)
            return a._cmp(b)
        if not EXACT_TOL[0]:
            return None
        if isinstance(c, bool) or not isinstance(c, (int, float)):
            raise StubGap(f'comparison of a square with {type(c).__name__}')
        if c < 0:
            return 1
        from fractions import Fraction
        from math import isqrt
        f = Fraction(c)
        lo = Fraction(isqrt(f.numerator * 10 ** 12 // f.denominator), 10 ** 6)
        hi = lo + Fraction(1, 10 ** 6)
        a = abs(self.q)
        # |q| = a.num / a.den with a.den > 0
        if a.num * lo.denominator < lo.numerator * a.den:
            return -1
        if a.num * hi.denominator > hi.numerator * a.den:
            return 1
        return None

    def __lt__(self, c):
        r = self._cmp(c)
        return TOLERANCE_ORACLE[0] if r is None else r < 0

    def __le__(self, c):
        r = self._cmp(c)
        return TOLERANCE_ORACLE[0] if r is None else r <= 0

    def __gt__(self, c):
        r = self._cmp(c)
        return (not TOLERANCE_ORACLE[0]) if r is None else r > 0

    def __ge__(self, c):
        r = self._cmp(c)
        return (not TOLERANCE_ORACLE[0]) if r is None else r >= 0


class QArr:
    """Element-wise exact rationals."""

    def __init__(self, qs):
        self.qs = list(qs)

    def __len__(self):
        return len(self.qs)

    def _bin(self, o, f):
        if isinstance(o, (QArr, VArr)):
            oq = o.qs if isinstance(o, QArr) else o._q().qs
            if len(oq) != len(self.qs):
                raise StubGap('broadcast of different lengths')
            return QArr([(NAN if (self.qs[i] is NAN or oq[i] is NAN) else f(self.qs[i], oq[i])) for i in range(len(oq))])
        return QArr([(NAN if (q is NAN or o is NAN) else f(q, o)) for q in self.qs])

    def __truediv__(self, o):
        return self._bin(o, lambda a, b: a / b)

    def __rtruediv__(self, o):
        return self._bin(o, lambda a, b: b / a)

    def __sub__(self, o):
        return self._bin(o, lambda a, b: a - b)

    def __rsub__(self, o):
        return self._bin(o, lambda a, b: b - a)

    def __add__(self, o):
        return self._bin(o, lambda a, b: a + b)

    __radd__ = __add__

    def __mul__(self, o):
        return self._bin(o, lambda a, b: a * b)

    __rmul__ = __mul__

    def __pow__(self, k):
        return QArr([q ** k for q in self.qs])

    def __abs__(self):
        return QArr([abs(q) for q in self.qs])

    def __neg__(self):
        return QArr([-q for q in self.qs])

    def __lt__(self, o):
        return VBool([q < o for q in self.qs])

    def __le__(self, o):
        return VBool([q <= o for q in self.qs])

    def __gt__(self, o):
        return VBool([q > o for q in self.qs])

    def __ge__(self, o):
        return VBool([q >= o for q in self.qs])

    def __eq__(self, o):
        return VBool([q == o for q in self.qs])

    def max(self):
        m = self.qs[0]
        for q in self.qs[1:]:
            if q > m:
                m = q
        return m

    def min(self):
        m = self.qs[0]
        for q in self.qs[1:]:
            if q < m:
                m = q
        return m


def abs(a):                                   # noqa: A001  (np.abs)
    return a.__abs__()


absolute = abs
fabs = abs


def square(a):
    return a ** 2


def all(a):                                   # noqa: A001
    return a.all()


def any(a):                                   # noqa: A001
    return a.any()


def max(a):                                   # noqa: A001
    return a.max()


def min(a):                                   # noqa: A001
    return a.min()


amax = max
amin = min


class _Med:
    def __init__(self, v):
        self.v = v

    def item(self):
        return self.v


def median(a):
    for v in a.vals:
        if v is NAN:
            return NAN                     # numpy: the median of an array holding a NaN is NaN (.item() -> nan)
    s = sorted(a.vals)
    n = len(s)
    if n == 0:
        raise StubGap('median of an empty array')
    if n % 2:
        return _Med(MedVal(s[n // 2], 1))
    return _Med(MedVal(s[n // 2 - 1] + s[n // 2], 2))


class VArr2D:
    """A 2-D array of n rows x w columns as far as the frame set-up looks at it (shape, size, ndim, whole-array slice,
    min / max as opaque tokens)."""

    def __init__(self, n, w):
        self.n, self.w = n, w

    @property
    def shape(self):
        return (self.n, self.w)

    @property
    def ndim(self):
        return 2

    @property
    def size(self):
        return self.n * self.w

    def __len__(self):
        return self.n

    def __getitem__(self, k):
        if isinstance(k, slice) and k == slice(None, None, None):
            return self
        raise StubGap('VArr2D indexing')

    def min(self):
        return -5

    def max(self):
        return 500


def __getattr__(name):
    """Anything of numpy that is not modelled: the obligation becomes inconclusive, never a verdict."""
    if name.startswith('__'):
        raise AttributeError(name)
    raise StubGap(f'numpy.{name} is not modelled by npvalues')
