"""LenStr: a ``str`` of symbolic length and abstract content (DESIGN 2.3).

Contract: ``str(x) is x``; ``len(x)`` is the (symbolic) length; ``x.encode(enc, errors)`` returns a Rope source range
of that length and records ``(enc, errors)`` so that call sites can be held to ``.encode('ascii')`` with strict
errors (CPython's encoder is the trusted primitive that then rejects every character >= 128);
``x + s`` / ``s + x`` give a LenStr of the summed length (content abstract).
"""
from vf.stubs.rope import Rope

_counter = [0]


class LenStr(str):
    def __new__(cls, n, name=None, encodings=None):
        o = str.__new__(cls, '')
        return o

    def __init__(self, n, name=None, encodings=None):
        self.n = n
        if name is None:
            _counter[0] += 1
            name = f'str{_counter[0]}'
        self.src = name
        self.encodings = encodings if encodings is not None else []

    def __len__(self):
        return self.n

    def __str__(self):
        return self

    def __bool__(self):
        if self.n > 0:
            return True
        return False

    def __hash__(self):
        return hash(self.src)

    def __eq__(self, o):
        return o is self

    def __ne__(self, o):
        return o is not self

    def encode(self, encoding='utf-8', errors='strict'):
        self.encodings.append((encoding, errors))
        return Rope([('src', self.src, 0, self.n)])

    def __add__(self, o):
        if isinstance(o, LenStr):
            return LenStr(self.n + o.n, self.src + '+' + o.src, self.encodings)
        return LenStr(self.n + len(o), self.src + '+pad', self.encodings)

    def __radd__(self, o):
        return LenStr(len(o) + self.n, 'pad+' + self.src, self.encodings)

    def isascii(self):
        raise NotImplementedError("LenStr content is abstract")

    def __repr__(self):
        return f"LenStr({self.src})"
