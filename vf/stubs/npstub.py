"""npstub: provenance-level stand-in for the part of numpy / h5py that dliswriter's *Python-level* data logic touches.

What an array *is* here: who owns its memory, which rows of which source column it shows, its element dtype (name,
byte order), its per-row width, and whether it is a view.  No element values.  Contract encoded (numpy's documented
behaviour):

  * basic slicing ``a[i:j]`` -> a *view* of the rows selected with Python's clamping rules; ``a[:]`` likewise;
  * ``a[name]`` on a structured array -> view of that field (all rows);
  * ``np.zeros(n, dtype=struct)`` -> fresh structured array owned by the library;
  * ``chunk[name] = x`` -> element-wise *copy* of x into the field (cast to the field dtype, value preserving),
    ValueError unless ``len(x) == len(chunk)`` or ``len(x) == 1`` (broadcast: every row gets x's row 0);
  * iterating a structured array yields rows; iterating a row yields, per field, a numpy *scalar in native byte
    order* for scalar fields and an ndarray *view with the field's dtype* (byte order kept) for sub-array fields;
  * ``x.byteswap()`` -> new array/scalar whose memory order is flipped (copy); ``byteswap(True)`` mutates in place;
  * ``x.astype(dt, copy=False)`` -> value-preserving conversion: memory order becomes dt's; a copy unless dt == x.dtype;
  * ``dtype.newbyteorder(c)``; ``x.tobytes()`` -> the memory bytes, C order: here a Rope source range named
    ``<column>|<dtype name>|<memory order>`` covering ``[row*w*itemsize, (row+1)*w*itemsize)``;
  * every in-place operation on an array that is (a view of) caller-owned memory is recorded in ``MUTATIONS``.

Anything else raises StubGap (the obligation becomes inconclusive, never a pass).
"""
from vf.stubs.rope import Rope
from vf.stubs.memio import StubGap

NATIVE = '<'          # the machine this runs on (checked by the self-test against sys.byteorder)
ITEMSIZE = {'int8': 1, 'int16': 2, 'int32': 4, 'int64': 8, 'uint8': 1, 'uint16': 2, 'uint32': 4, 'uint64': 8,
            'float16': 2, 'float32': 4, 'float64': 8, 'bool': 1}
MUTATIONS = []        # (what, owner, column)


def reset():
    del MUTATIONS[:]


class generic:
    """Base of numpy scalar types (np.float64 ... as *types*, used for cast_dtype)."""


def _mk_scalar_type(n):
    return type(n, (generic,), {})


class signedinteger(generic):
    pass


# (floating / integer / unsignedinteger are defined further down, next to the mask helpers)


class dtype:
    """np.dtype: scalar (name, byteorder) or structured (list of fields)."""

    def __new__(cls, spec=None, *a, **k):
        if cls is dtype:
            if isinstance(spec, dtype):
                return spec
            if isinstance(spec, list):
                o = object.__new__(StructDtype)
                return o
            if isinstance(spec, type) and issubclass(spec, generic):
                o = object.__new__(SDtype)
                return o
            raise StubGap(f'np.dtype({spec!r}) not modelled')
        return object.__new__(cls)


class SDtype(dtype):
    def __init__(self, name, byteorder='=', *a, **k):
        if isinstance(name, type):
            name = name.__name__
        self.name = name
        self.byteorder = NATIVE if byteorder in ('=', '|') else byteorder
        self.itemsize = ITEMSIZE[name]
        self.names = None

    def __getattr__(self, name):
        if name.startswith('__'):
            raise AttributeError(name)
        raise StubGap(f'{type(self).__name__}.{name} is not modelled')

    @property
    def base(self):
        return self

    @property
    def kind(self):
        return 'f' if self.name.startswith('float') else ('u' if self.name.startswith('u') else ('b' if self.name == 'bool' else 'i'))

    def newbyteorder(self, c='S'):
        if c in ('S', 's'):
            return SDtype(self.name, '>' if self.byteorder == '<' else '<')
        if c in ('=', '|'):
            return SDtype(self.name, NATIVE)
        return SDtype(self.name, c)

    def __eq__(self, o):
        if isinstance(o, type) and issubclass(o, generic):
            return self.name == o.__name__ and self.byteorder == NATIVE
        if not isinstance(o, SDtype):
            return False
        return self.name == o.name and self.byteorder == o.byteorder

    def __ne__(self, o):
        return not self.__eq__(o)

    def __hash__(self):
        return hash((self.name, self.byteorder))

    def __repr__(self):
        return f"dtype('{self.byteorder}{self.name}')"


class StructDtype(dtype):
    def __init__(self, fields, *a, **k):
        self._flds = []
        for f in fields:
            nm, t = f[0], f[1]
            w = f[2] if len(f) > 2 else None
            if isinstance(t, type) and issubclass(t, generic):
                t = SDtype(t.__name__)
            if not isinstance(t, SDtype):
                raise StubGap(f'field type {t!r}')
            self._flds.append((nm, t, w))
        self.names = tuple(f[0] for f in self._flds)

    def __getitem__(self, name):
        for (nm, t, w) in self._flds:
            if nm == name:
                return t
        raise KeyError(name)

    def width(self, name):
        for (nm, t, w) in self._flds:
            if nm == name:
                return w
        raise KeyError(name)

    @property
    def fields(self):
        """numpy: mapping name -> (sub-dtype, offset); the sub-dtype of a sub-array field is stood for by (dtype, width)."""
        out, off = {}, 0
        for (nm, t, w) in self._flds:
            out[nm] = ((t, w) if w else t, off)
            off += t.itemsize * (w or 1)
        return out

    @property
    def itemsize(self):
        return sum(t.itemsize * (w or 1) for (nm, t, w) in self._flds)

    def __len__(self):
        return len(self._flds)

    def __getattr__(self, name):
        if name.startswith('__'):
            raise AttributeError(name)
        raise StubGap(f'structured dtype .{name} is not modelled')

    def __eq__(self, o):
        return isinstance(o, StructDtype) and self._flds == o._flds

    def __ne__(self, o):
        return not self.__eq__(o)

    def __hash__(self):
        return hash(self.names)


def issubdtype(dt, kind):
    if not isinstance(dt, SDtype):
        raise StubGap('issubdtype of a non-scalar dtype')
    if kind is signedinteger:
        return dt.name in ('int8', 'int16', 'int32', 'int64')
    if kind is floating:
        return dt.name.startswith('float')
    if kind is integer:
        return dt.name.startswith(('int', 'uint'))
    if kind is unsignedinteger:
        return dt.name.startswith('uint')
    raise StubGap('issubdtype kind')


class _Flags:
    """arr.flags: the arrays of the harness (and of the replays) are writable."""
    writeable = True
    c_contiguous = True

    def __getattr__(self, name):
        if name.startswith('__'):
            raise AttributeError(name)
        raise StubGap(f'flags.{name} is not modelled')


class ndarray:
    flags = _Flags()
    """Plain (non-structured) array: one source column."""

    def __init__(self, owner, column, a, b, dt, width=None, view=False, rows_from=None, extra_dims=0):
        self.owner, self.column, self.a, self.b = owner, column, a, b
        self.dtype, self.width, self.is_view = dt, width, view
        self.extra_dims = extra_dims          # dimensions beyond 2 (for the >2-D rejection path)
        self.rows_from = rows_from            # None: rows a..b of the column; ('bcast', row): every row is that row

    def __getattr__(self, name):
        if name.startswith('__'):
            raise AttributeError(name)
        raise StubGap(f'{type(self).__name__}.{name} is not modelled')

    @property
    def ndim(self):
        return 1 + (1 if self.width is not None else 0) + self.extra_dims

    @property
    def shape(self):
        n = self.b - self.a
        if self.width is None:
            return (n,)
        return (n, self.width) + (2,) * self.extra_dims

    def __len__(self):
        return self.b - self.a

    def __getitem__(self, sl):
        if not isinstance(sl, slice):
            raise StubGap('ndarray: only basic row slicing is modelled')
        if sl.step is not None:
            raise StubGap('ndarray: strided slicing')
        n = self.b - self.a
        lo = 0 if sl.start is None else sl.start
        hi = n if sl.stop is None else sl.stop
        if lo < 0:
            lo = max(n + lo, 0)
        if hi < 0:
            hi = max(n + hi, 0)
        lo = min(lo, n)
        hi = min(hi, n)
        hi = max(lo, hi)
        return ndarray(self.owner, self.column, self.a + lo, self.a + hi, self.dtype, self.width, True, None,
                       self.extra_dims)

    # ---- in-place operations: recorded
    def _mut(self, what):
        MUTATIONS.append((what, self.owner, self.column))

    def __setitem__(self, k, v):
        self._mut('setitem')

    def byteswap(self, inplace=False):
        if inplace:
            self._mut('byteswap(inplace)')
            return self
        raise StubGap('byteswap of a whole column')

    def sort(self, *a, **k):
        self._mut('sort')

    def fill(self, *a):
        self._mut('fill')

    def __ior__(self, o):
        self._mut('ior')
        return self

    def __iadd__(self, o):
        self._mut('iadd')
        return self

    def __imul__(self, o):
        self._mut('imul')
        return self

    def astype(self, dt, copy=True, **kw):
        dt = dt if isinstance(dt, SDtype) else SDtype(dt.__name__)
        if not copy and dt == self.dtype:
            return self                       # numpy: no copy when nothing has to change - still the caller's memory
        return ndarray('lib', self.column, self.a, self.b, dt, self.width, False, self.rows_from, self.extra_dims)

    # ---- read-only reductions / comparisons (values abstract: only ownership and mutation are tracked)
    def min(self, *a, **k):
        return 1.0

    def max(self, *a, **k):
        return 2.0

    def __eq__(self, o):
        if isinstance(o, (int, float)) and not isinstance(o, bool):
            return Mask(self)
        return NotImplemented

    __hash__ = object.__hash__

    def copy(self):
        return ndarray('lib', self.column, self.a, self.b, self.dtype, self.width, False, self.rows_from, self.extra_dims)


class Field:
    """One field of a structured array in memory: where its rows come from."""
    __slots__ = ('owner', 'column', 'a', 'dt', 'width', 'bcast', 'src_dt', 'zero')

    def __init__(self, owner, column, a, dt, width, bcast=False, src_dt=None, zero=False):
        self.owner, self.column, self.a, self.dt, self.width = owner, column, a, dt, width
        self.bcast, self.src_dt, self.zero = bcast, src_dt, zero


class structarr(ndarray):
    """Structured 1-D array of n rows; ``fields`` name -> Field.  ``owner`` 'caller' for user data, 'lib' otherwise."""

    def __init__(self, owner, n, sdt, fields, view=False, a0=0):
        self.owner, self.n, self.dtype, self.fields, self.is_view = owner, n, sdt, fields, view
        self.a0 = a0
        self.width = None
        self.extra_dims = 0
        self.column = '<struct>'

    @property
    def ndim(self):
        return 1

    @property
    def shape(self):
        return (self.n,)

    def __len__(self):
        return self.n

    def __getitem__(self, k):
        if isinstance(k, str):
            f = self.fields[k]
            if f.zero and self.owner == 'lib' and not self.is_view:
                return FieldFill(self, k)          # chunk[key][a:b] = block: a fresh field filled block by block
            if f.zero or f.bcast:
                raise StubGap('reading a field of a freshly built chunk')
            return ndarray(self.owner, f.column, f.a, f.a + self.n, f.dt, f.width, True)
        if isinstance(k, slice):
            if k.step is not None:
                raise StubGap('strided slicing')
            n = self.n
            lo = 0 if k.start is None else k.start
            hi = n if k.stop is None else k.stop
            if lo < 0:
                lo = max(n + lo, 0)
            if hi < 0:
                hi = max(n + hi, 0)
            lo = min(lo, n)
            hi = min(hi, n)
            hi = max(lo, hi)
            nf = {}
            for nm, f in self.fields.items():
                nf[nm] = Field(f.owner, f.column, f.a if f.bcast else f.a + lo, f.dt, f.width, f.bcast, f.src_dt, f.zero)
            return structarr(self.owner, hi - lo, self.dtype, nf, True, self.a0 + lo)
        raise StubGap(f'structarr index {k!r}')

    def __setitem__(self, k, v):
        if not isinstance(k, str):
            self._mut('setitem')
            return
        if self.owner != 'lib':
            self._mut('field assignment')
        if not isinstance(v, ndarray) or isinstance(v, structarr):
            raise StubGap('assigning a non-array to a field')
        m = v.b - v.a
        w = self.dtype.width(k)
        if (v.width or None) != (w or None):
            if not (v.width is None and w is None):
                if v.width != w:
                    raise ValueError('could not broadcast input array (shape mismatch)')
        if m == self.n:
            self.fields[k] = Field('lib', v.column, v.a, self.dtype[k], w, False, v.dtype)
        elif m == 1:
            self.fields[k] = Field('lib', v.column, v.a, self.dtype[k], w, True, v.dtype)
        else:
            raise ValueError('could not broadcast input array')

    def view(self, dt=None, *a, **k):
        """arr.view(other structured dtype): the same memory under other field names - field i of the target dtype shows
        what field i of this array holds (numpy checks only the sizes).  Modelled for equal layouts only."""
        if not isinstance(dt, StructDtype) or a or k:
            raise StubGap(f'view({dt!r}) is not modelled')
        mine = [(t, w or None) for (nm, t, w) in self.dtype._flds]
        theirs = [(t, w or None) for (nm, t, w) in dt._flds]
        if mine != theirs:
            raise StubGap('view() to a dtype with another layout is not modelled')
        olds = [self.fields[nm] for nm in self.dtype.names]
        nf = {}
        for i, nm in enumerate(dt.names):
            f = olds[i]
            nf[nm] = Field(f.owner, f.column, f.a, f.dt, f.width, f.bcast, f.src_dt, f.zero)
        return structarr(self.owner, self.n, dt, nf, True, self.a0)

    def __iter__(self):
        for i in range(self.n):
            yield Row(self, i)

    def copy(self):
        nf = {nm: Field('lib', f.column, f.a, f.dt, f.width, f.bcast, f.src_dt, f.zero) for nm, f in self.fields.items()}
        return structarr('lib', self.n, self.dtype, nf, False, self.a0)


class FieldFill:
    """``chunk[key]`` of a fresh (np.zeros) chunk, used as the target of block-wise slice assignments
    ``chunk[key][lo:hi] = block``.  Contract: blocks arrive in ascending, gap-free order (anything else: StubGap); as
    long as each block continues the source rows of the previous one the field stays ONE provenance range (column, first
    row); a block that does not continue them turns the field into '<pieces>' (no provenance - every check on it fails
    and the replay on the real package decides).  The field counts as filled once the blocks cover all rows."""

    def __init__(self, arr, key):
        self.arr, self.key = arr, key

    def __setitem__(self, k, v):
        if not isinstance(k, slice) or k.step is not None:
            raise StubGap('FieldFill: only slice assignment is modelled')
        arr = self.arr
        n = arr.n
        lo = 0 if k.start is None else k.start
        hi = n if k.stop is None else k.stop
        if lo < 0 or hi < 0:
            raise StubGap('FieldFill: negative bounds')
        hi = min(hi, n)
        st = arr.__dict__.setdefault('_fill', {}).get(self.key)
        filled = 0 if st is None else st[0]
        if lo != filled:
            raise StubGap('FieldFill: blocks out of order')
        if not isinstance(v, ndarray) or isinstance(v, structarr):
            raise StubGap('assigning a non-array to a field')
        m = v.b - v.a
        if m != hi - lo:
            if m == 1:
                raise StubGap('FieldFill: broadcast block')
            raise ValueError('could not broadcast input array')
        w = arr.dtype.width(self.key)
        if (v.width or None) != (w or None):
            raise ValueError('could not broadcast input array (shape mismatch)')
        if st is None:
            st = [hi, v.column, v.a, v.dtype]
        else:
            if v.column != st[1] or v.a != st[2] + lo:
                st[1] = '<pieces>'
            st[0] = hi
        arr._fill[self.key] = st
        if st[0] >= n:
            arr.fields[self.key] = Field('lib', st[1], st[2], arr.dtype[self.key], w, False, st[3])

    def __getitem__(self, k):
        raise StubGap('reading a field of a freshly built chunk')

    def __getattr__(self, name):
        if name.startswith('__'):
            raise AttributeError(name)
        raise StubGap(f'FieldFill.{name} is not modelled')


def zeros(n, dtype=None):
    if not isinstance(dtype, StructDtype):
        raise StubGap('np.zeros of a non-structured dtype')
    fields = {nm: Field('lib', '<zeros>', 0, t, w, False, None, True) for (nm, t, w) in dtype._flds}
    return structarr('lib', n, dtype, fields)


class Row:
    """np.void: one row of a structured array."""

    def __getattr__(self, name):
        if name.startswith('__'):
            raise AttributeError(name)
        raise StubGap(f'{type(self).__name__}.{name} is not modelled')

    def __init__(self, arr, i):
        self.arr, self.i = arr, i

    def __iter__(self):
        for (nm, t, w) in self.arr.dtype._flds:
            f = self.arr.fields[nm]
            row = f.a if f.bcast else f.a + self.i
            if w is None:
                # a numpy scalar: always native byte order
                yield Elem(f.owner, f.column, row, SDtype(t.name, NATIVE), None, False, f.zero)
            else:
                # a view of the sub-array with the *field's* dtype (byte order kept)
                yield ArrElem(f.owner, f.column, row, t, w, True, f.zero)


class Elem:
    """What iterating a row yields for one slot."""
    flags = _Flags()

    def __getattr__(self, name):
        if name.startswith('__'):
            raise AttributeError(name)
        raise StubGap(f'{type(self).__name__}.{name} is not modelled')

    def __init__(self, owner, column, row, dt, width, is_view, zero=False):
        self.owner, self.column, self.row, self.dtype, self.width, self.is_view, self.zero = \
            owner, column, row, dt, width, is_view, zero

    def byteswap(self, inplace=False):
        if inplace:
            if self.is_view:
                MUTATIONS.append(('byteswap(inplace)', self.owner, self.column))
            return self
        return Elem('lib', self.column, self.row, SDtype(self.dtype.name, '>' if self.dtype.byteorder == '<' else '<'),
                    self.width, False, self.zero)

    def astype(self, dt, copy=True):
        if not isinstance(dt, SDtype):
            dt = SDtype(dt.__name__)
        return Elem('lib', self.column, self.row, dt, self.width, False, self.zero)

    def tobytes(self):
        w = 1 if self.width is None else self.width
        k = w * self.dtype.itemsize
        col = '<zeros>' if self.zero else self.column
        return Rope([('src', f'{col}|{self.dtype.name}|{self.dtype.byteorder}', self.row * k, (self.row + 1) * k)])


class ArrElem(Elem, ndarray):
    """The element a structured row yields for a SUB-ARRAY field: an ndarray (a view) for isinstance() - a real subclass,
    because CrossHair's isinstance does not consult a metaclass __instancecheck__ (found with seed C03r6: the obligation
    was Confirmed although the concrete run showed the mutation).  Elem's methods come first; anything else is a StubGap."""


def asarray(x, *a, **k):
    return x


class Mask:
    """Boolean mask derived from an array (np.isfinite / isnan / comparisons): content abstract."""

    def __init__(self, of):
        self.of = of

    def __invert__(self):
        return Mask(self.of)

    def __and__(self, o):
        return Mask(self.of)

    __or__ = __and__
    __rand__ = __and__

    def any(self):
        if MASK_ORACLE[0] is None:
            raise StubGap('truth value of a data-dependent mask')
        return MASK_ORACLE[0]                 # arbitrary (a symbolic harness argument): the data are abstract

    all = any


MASK_ORACLE = [None]


def isfinite(x):
    return Mask(x)


isnan = isinf = signbit = isfinite


class floating(generic):
    pass


class integer(generic):
    pass


class unsignedinteger(generic):
    pass


# scalar types as attributes (np.float64 ...)
int8, int16, int32, int64 = (_mk_scalar_type(n) for n in ('int8', 'int16', 'int32', 'int64'))
uint8, uint16, uint32, uint64 = (_mk_scalar_type(n) for n in ('uint8', 'uint16', 'uint32', 'uint64'))
float16, float32, float64 = (_mk_scalar_type(n) for n in ('float16', 'float32', 'float64'))


class FakeH5File(dict):
    """h5py.File opened read-only: dict-like access by absolute dataset path; missing -> KeyError; close()."""
    closed = False

    def close(self):
        self.closed = True


class FakeH5Module:
    def __init__(self):
        self.files = {}
        self.opened = []

    def File(self, name, mode='r'):
        self.opened.append((str(name), mode))
        if mode != 'r':
            raise StubGap('h5py.File opened for writing')
        return self.files[str(name)]
