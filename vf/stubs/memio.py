"""In-memory stand-ins for ``bytearray(size)`` (BufferedOutput), ``open`` and ByteWriter (DESIGN 2.3)."""
from vf.stubs.rope import Rope, _coerce


class StubGap(Exception):
    """An operation outside the stub's modelled contract was used: the obligation is inconclusive."""


class RopeArray:
    """``bytearray(size)`` as used by BufferedOutput: zero-filled, slice assignment, prefix slice read.

    Contract: ``a[s:e] = v`` requires ``len(v) == e - s`` (a real bytearray would otherwise *resize*; the stub records
    that as ``resized`` so the harness can flag it) and ``s`` equal to the end of what was stored so far (append
    order, which is the only order BufferedOutput uses; anything else raises StubGap).  ``a[:n]`` returns the stored
    content of [0, n) followed by zero bytes where nothing was stored.
    """

    def __init__(self, size=0):
        if isinstance(size, float):
            raise TypeError("cannot convert 'float' object to bytearray")      # what bytearray(8192.0) does
        self.size = size
        self.fill = 0
        self.content = Rope([])
        self.resized = False

    def __len__(self):
        return self.size

    def __setitem__(self, sl, v):
        if not isinstance(sl, slice) or sl.step is not None:
            raise StubGap("RopeArray: only slice assignment is modelled")
        s = 0 if sl.start is None else sl.start
        e = self.size if sl.stop is None else sl.stop
        if s != self.fill:
            raise StubGap("RopeArray: non-append slice assignment")
        v = _coerce(v)
        if len(v) != e - s or e > self.size:
            self.resized = True
        self.content = self.content + v
        self.fill = s + len(v)

    def __getitem__(self, sl):
        if not isinstance(sl, slice) or sl.step is not None or sl.start not in (None, 0):
            raise StubGap("RopeArray: only prefix slices are modelled")
        n = self.size if sl.stop is None else sl.stop
        if n <= self.fill:
            return self.content[0:n]
        return self.content + Rope([('src', 'zeros', 0, n - self.fill)])


class MemWriter:
    """Stands for ByteWriter: records every write in order."""

    def __init__(self):
        self.writes = []          # (Rope, announced size)
        self._total = 0

    @property
    def total_size(self):
        return self._total

    filename = 'mem'

    def write_bytes(self, bts, size=None):
        r = _coerce(bts)
        self.writes.append((r, size))
        self._total = self._total + (size or len(r))


class FakeFS:
    """``open(path, 'wb'|'ab')`` over a dict path -> Rope; 'wb' truncates, 'ab' appends."""

    def __init__(self, initial=None):
        self.files = dict(initial or {})
        self.log = []

    def open(self, path, mode='r'):
        fs = self

        class _F:
            def __enter__(self_inner):
                if mode == 'wb':
                    fs.files[path] = Rope([])
                elif mode == 'ab':
                    if path not in fs.files:
                        fs.files[path] = Rope([])
                else:
                    raise StubGap(f"FakeFS: mode {mode!r} not modelled")
                fs.log.append((path, mode))
                return self_inner

            def __exit__(self_inner, *a):
                return False

            def write(self_inner, b):
                fs.files[path] = fs.files[path] + _coerce(b)
                return len(b)

        return _F()


def install_buffer_stub(writer_mod):
    writer_mod.bytearray = RopeArray
    writer_mod.progressbar = lambda it, **kw: it
