"""In-memory stand-ins for ``bytearray(size)`` (BufferedOutput), ``open`` and ByteWriter (DESIGN 2.3)."""
from vf.stubs.rope import Rope, _coerce


class StubGap(Exception):
    """An operation outside the stub's modelled contract was used: the obligation is inconclusive."""


class RopeArray:
    """``bytearray(size)`` as used by BufferedOutput: zero-filled, slice assignment, prefix slice read.

    Contract: ``a[s:e] = v`` requires ``len(v) == e - s`` (a real bytearray would otherwise *resize*; the stub records
    that as ``resized`` so the harness can flag it) and ``s`` equal to the end of what was stored so far (append
    order, which is the only order BufferedOutput uses; anything else raises StubGap).  ``a[:n]`` returns the stored
    content of [0, n) followed by zero bytes where nothing was stored.
    """

    def __init__(self, size=0):
        if isinstance(size, float):
            raise TypeError("cannot convert 'float' object to bytearray")      # what bytearray(8192.0) does
        self.size = size
        self.fill = 0
        self.content = Rope([])
        self.resized = False

    def __len__(self):
        return self.size

    def __setitem__(self, sl, v):
        if not isinstance(sl, slice) or sl.step is not None:
            raise StubGap("RopeArray: only slice assignment is modelled")
        s = 0 if sl.start is None else sl.start
        e = self.size if sl.stop is None else sl.stop
        if s != self.fill:
            raise StubGap("RopeArray: non-append slice assignment")
        v = _coerce(v)
        if len(v) != e - s or e > self.size:
            self.resized = True
        self.content = self.content + v
        self.fill = s + len(v)

    def __getitem__(self, sl):
        if not isinstance(sl, slice) or sl.step is not None or sl.start not in (None, 0):
            raise StubGap("RopeArray: only prefix slices are modelled")
        n = self.size if sl.stop is None else sl.stop
        if n <= self.fill:
            return self.content[0:n]
        return self.content + Rope([('src', 'zeros', 0, n - self.fill)])


def _as_rope(b):
    """Whatever a writer hands to a file: Rope, bytes-likes, a whole RopeArray (= all its bytes), a real memoryview."""
    if isinstance(b, RopeArray):
        return b[0:b.size]
    if isinstance(b, memoryview):
        return _coerce(bytes(b))
    return _coerce(b)


class MemWriter:
    """Stands for ByteWriter: records every write in order."""

    def __init__(self):
        self.writes = []          # (Rope, announced size)
        self._total = 0

    @property
    def total_size(self):
        return self._total

    filename = 'mem'

    def write_bytes(self, bts, size=None):
        r = _as_rope(bts)
        self.writes.append((r, size))
        self._total = self._total + (size or len(r))


class FakeFS:
    """``open(path, mode)`` over a dict path -> Rope: 'wb' truncates, 'ab' appends, 'r+b' keeps the content and writes at
    the current position (seek / tell / truncate); ``os.path.exists`` & co. answer from the same dict (``os_shim``).
    ``snapshots`` holds the content of the file each time it is closed."""

    def __init__(self, initial=None):
        self.files = dict(initial or {})
        self.log = []
        self.snapshots = []

    def open(self, path, mode='r', *args, **kwargs):
        fs = self
        if hasattr(path, '__fspath__'):
            path = path.__fspath__()

        class _F:
            def __enter__(self_inner):
                if mode in ('wb', 'bw', 'wb+', 'w+b'):
                    fs.files[path] = Rope([])
                    self_inner.pos = 0
                    self_inner.append = False
                elif mode in ('ab', 'ba'):
                    if path not in fs.files:
                        fs.files[path] = Rope([])
                    self_inner.pos = len(fs.files[path])
                    self_inner.append = True
                elif mode in ('r+b', 'rb+', 'br+'):
                    if path not in fs.files:
                        raise FileNotFoundError(path)
                    self_inner.pos = 0
                    self_inner.append = False
                else:
                    raise StubGap(f"FakeFS: mode {mode!r} not modelled")
                fs.log.append((path, mode))
                return self_inner

            def __exit__(self_inner, *a):
                fs.snapshots.append(fs.files[path])
                return False

            def close(self_inner):
                fs.snapshots.append(fs.files[path])

            def write(self_inner, b):
                b = _as_rope(b)
                old = fs.files[path]
                n = len(b)
                if self_inner.append or self_inner.pos == len(old):
                    fs.files[path] = old + b
                    self_inner.pos = len(old) + n
                else:
                    pos = self_inner.pos
                    if pos > len(old):
                        old = old + Rope([('src', 'zeros', 0, pos - len(old))])      # a hole reads as zero bytes
                    fs.files[path] = old[0:pos] + b + old[pos + n:len(old)]
                    self_inner.pos = pos + n
                return n

            def seek(self_inner, pos, whence=0):
                if whence == 0:
                    self_inner.pos = pos
                elif whence == 1:
                    self_inner.pos = self_inner.pos + pos
                elif whence == 2:
                    self_inner.pos = len(fs.files[path]) + pos
                else:
                    raise StubGap('seek whence')
                return self_inner.pos

            def tell(self_inner):
                return self_inner.pos

            def truncate(self_inner, size=None):
                size = self_inner.pos if size is None else size
                old = fs.files[path]
                if size < len(old):
                    fs.files[path] = old[0:size]
                elif size > len(old):
                    fs.files[path] = old + Rope([('src', 'zeros', 0, size - len(old))])
                return size

            def flush(self_inner):
                return None

            def __getattr__(self_inner, name):
                if name.startswith('__'):
                    raise AttributeError(name)
                raise StubGap(f'FakeFS file object: {name} is not modelled')

        f = _F()
        return f

    def os_shim(self):
        """What a writer may ask the operating system about its target, answered from the same dict."""
        fs = self

        def _p(path):
            return path.__fspath__() if hasattr(path, '__fspath__') else path

        class _Path:
            @staticmethod
            def exists(path):
                return _p(path) in fs.files

            isfile = exists

            @staticmethod
            def getsize(path):
                if _p(path) not in fs.files:
                    raise FileNotFoundError(path)
                return len(fs.files[_p(path)])

            def __getattr__(self_inner, name):
                if name.startswith('__'):
                    raise AttributeError(name)
                raise StubGap(f'os.path.{name} is not modelled')

        class _Os:
            path = _Path()

            @staticmethod
            def remove(path):
                if _p(path) not in fs.files:
                    raise FileNotFoundError(path)
                del fs.files[_p(path)]

            unlink = remove

            @staticmethod
            def truncate(path, size):
                old = fs.files[_p(path)]
                fs.files[_p(path)] = old[0:size] if size <= len(old) else old + Rope([('src', 'zeros', 0, size - len(old))])

            @staticmethod
            def fspath(path):
                return _p(path)

            def __getattr__(self_inner, name):
                if name.startswith('__'):
                    raise AttributeError(name)
                raise StubGap(f'os.{name} is not modelled')

        return _Os()


def kmemoryview(b):
    """``memoryview(b)`` for the byte stand-ins: a view supports len and slicing and holds the same bytes - which is all a
    Rope / RopeArray is.  Real buffers get the real memoryview."""
    if isinstance(b, (Rope, RopeArray)):
        return b
    if hasattr(b, '_rope'):
        return b._rope
    return memoryview(b)


def install_buffer_stub(writer_mod):
    writer_mod.bytearray = RopeArray
    writer_mod.progressbar = lambda it, **kw: it
