"""Rope: a length/provenance abstraction of ``bytes`` (DESIGN 2.3).

A Rope is a list of parts:
    ('lit', [b0, b1, ...])           literal byte *values* (possibly symbolic ints)
    ('src', name, start, stop)       the bytes name[start:stop] of an abstract source of symbolic length
    ('rep', value, count)            ``count`` copies of one byte value (count may be symbolic, > 0)

Contract encoded: ``len``, ``+`` (with bytes / bytearray / Rope on either side), slicing with Python's clamping
rules, truthiness.  Content of 'src' parts is never inspected: what is proved about them is *which* bytes of the
source end up where.
"""
import struct


class RopeError(Exception):
    pass


def _coerce(o):
    if isinstance(o, Rope):
        return o
    if isinstance(o, (BytesRope, BytearrayRope)):
        return o._rope
    if isinstance(o, (bytes, bytearray)):
        if len(o) == 0:
            return Rope([])
        return Rope([('lit', list(o))])
    raise TypeError(f"can't concat {type(o).__name__} to bytes")


def _plen(p):
    if p[0] == 'lit':
        return len(p[1])
    if p[0] == 'rep':
        return p[2]
    return p[3] - p[2]


class Rope:
    __slots__ = ('parts',)

    def __init__(self, parts):
        self.parts = parts

    @staticmethod
    def source(name, n):
        return Rope([('src', name, 0, n)])

    @staticmethod
    def lit(bs):
        return Rope([('lit', list(bs))])

    def __len__(self):
        n = 0
        for p in self.parts:
            n = n + _plen(p)
        return n

    def __bool__(self):
        if len(self) > 0:
            return True
        return False

    def __add__(self, o):
        try:
            return Rope(self.parts + _coerce(o).parts)
        except TypeError:
            return NotImplemented

    def __radd__(self, o):
        try:
            return Rope(_coerce(o).parts + self.parts)
        except TypeError:
            return NotImplemented

    def __mul__(self, k):
        # k copies of a single literal byte keep the count symbolic (no enumeration of k)
        if len(self.parts) == 1 and self.parts[0][0] == 'lit' and len(self.parts[0][1]) == 1:
            if k <= 0:
                return Rope([])
            return Rope([('rep', self.parts[0][1][0], k)])
        out = []
        for _ in range(k):
            out = out + self.parts
        return Rope(out)

    __rmul__ = __mul__

    def __getitem__(self, sl):
        if not isinstance(sl, slice):
            raise RopeError("Rope supports slice access only")
        if sl.step is not None and sl.step != 1:
            raise RopeError("Rope slicing with a step is not modelled")
        n = len(self)
        a = 0 if sl.start is None else sl.start
        b = n if sl.stop is None else sl.stop
        if a < 0:
            a = max(n + a, 0)
        if b < 0:
            b = max(n + b, 0)
        a = min(a, n)
        b = min(b, n)
        b = max(a, b)
        if len(self.parts) == 1 and self.parts[0][0] == 'src':
            (_, name, s0, _e0) = self.parts[0]
            return Rope([('src', name, s0 + a, s0 + b)])
        out = []
        pos = 0
        for p in self.parts:
            ln = _plen(p)
            lo = max(a, pos)
            hi = min(b, pos + ln)
            if lo < hi:
                if p[0] == 'lit':
                    out.append(('lit', p[1][lo - pos:hi - pos]))
                elif p[0] == 'rep':
                    out.append(('rep', p[1], hi - lo))
                else:
                    out.append(('src', p[1], p[2] + (lo - pos), p[2] + (hi - pos)))
            pos = pos + ln
        return Rope(out)

    def flat(self):
        """[('b', value)...] for literal bytes, ('rep', value, count) for repeated bytes, ('src', name, a, b) for
        source ranges; empty parts dropped."""
        out = []
        for p in self.parts:
            if p[0] == 'lit':
                for v in p[1]:
                    out.append(('b', v))
            elif p[0] == 'rep':
                if p[2] > 0:
                    out.append(p)
            else:
                if p[3] > p[2]:
                    out.append(p)
        return out

    def to_bytes(self, sources=None):
        sources = sources or {}
        out = bytearray()
        for p in self.parts:
            if p[0] == 'lit':
                out += bytes(int(v) for v in p[1])
            elif p[0] == 'rep':
                out += bytes([int(p[1])]) * int(p[2])
            else:
                out += sources[p[1]][p[2]:p[3]]
        return bytes(out)

    def __repr__(self):
        return f"Rope({self.parts!r})"


class StructShim:
    """Stands for ``struct.Struct(fmt)`` held in RepresentationCode.<X>.converter.

    Contract: ``Struct(fmt).pack(*v) == struct.pack(fmt, *v)``; ``.size == calcsize(fmt)``; ``.format == fmt``.
    CrossHair models module-level ``struct.pack`` on ints (range check -> struct.error; big-endian bytes) but cannot
    enter the C ``Struct`` object.  Returns a Rope literal so later concatenations never touch symbolic ``bytes``.
    """

    def __init__(self, fmt):
        self.format = fmt
        self.size = struct.calcsize(fmt)

    def pack(self, *v):
        return Rope.lit(list(struct.pack(self.format, *v)))

    def unpack(self, b):
        return struct.unpack(self.format, b)


class BytesStructShim(StructShim):
    """Same contract, returning what ``struct.pack`` returns (real or symbolic ``bytes``)."""

    def pack(self, *v):
        return struct.pack(self.format, *v)


class BytesRope(bytes):
    """A genuine ``bytes`` instance (so ``isinstance(x, bytes)`` holds) whose length/content are those of a Rope."""

    def __new__(cls, rope):
        o = bytes.__new__(cls, b'')
        o._rope = rope
        return o

    def __len__(self):
        return len(self._rope)

    def __bool__(self):
        return bool(self._rope)

    def __add__(self, o):
        return self._rope + o

    def __radd__(self, o):
        return o + self._rope

    def __getitem__(self, sl):
        return self._rope[sl]


class BytearrayRope(bytearray):
    """Same for ``bytearray``."""

    def __new__(cls, rope):
        o = bytearray.__new__(cls)
        o._rope = rope
        return o

    def __init__(self, rope):
        bytearray.__init__(self)

    def __len__(self):
        return len(self._rope)

    def __bool__(self):
        return bool(self._rope)

    def __add__(self, o):
        return self._rope + o

    def __radd__(self, o):
        return o + self._rope

    def __getitem__(self, sl):
        return self._rope[sl]
