"""Differential self-validation of the stubs against the real leaves (run at the start of every check)."""
import random
import struct


def selftest_rope_struct(_p=None):
    from vf.stubs.rope import Rope, StructShim
    cases = 0
    # StructShim vs struct.Struct on boundary ints of every integer format used by the RepresentationCode table
    fmts = {'>B': (0, 255), '>H': (0, 65535), '>I': (0, 2 ** 32 - 1), '>b': (-128, 127), '>h': (-32768, 32767),
            '>i': (-2 ** 31, 2 ** 31 - 1)}
    for fmt, (lo, hi) in fmts.items():
        real = struct.Struct(fmt)
        shim = StructShim(fmt)
        if shim.size != real.size:
            return {'ok': False, 'detail': f'size {fmt}'}
        for v in (lo, lo + 1, -1, 0, 1, 127, 128, 255, 256, hi - 1, hi, hi + 1, lo - 1):
            try:
                want = real.pack(v)
            except struct.error:
                want = None
            try:
                got = shim.pack(v).to_bytes()
            except struct.error:
                got = None
            cases += 1
            if want != got:
                return {'ok': False, 'detail': f'StructShim({fmt}).pack({v}): {got} != {want}'}
    # Rope slicing / concatenation vs bytes
    rnd = random.Random(7)
    src = bytes(rnd.randrange(256) for _ in range(50))
    for _ in range(300):
        a, b = rnd.randrange(-60, 60), rnd.randrange(-60, 60)
        r = Rope.source('s', len(src))
        got = (b'\x01\x02' + r[a:b] + b'\x03').to_bytes({'s': src})
        want = b'\x01\x02' + src[a:b] + b'\x03'
        cases += 1
        if got != want or len(b'\x01\x02' + r[a:b] + b'\x03') != len(want):
            return {'ok': False, 'detail': f'Rope slice [{a}:{b}]'}
        multi = (Rope.lit([9, 8, 7]) + r + b'xyz')
        got = multi[a:b].to_bytes({'s': src})
        want = (bytes([9, 8, 7]) + src + b'xyz')[a:b]
        cases += 1
        if got != want:
            return {'ok': False, 'detail': f'multi-part Rope slice [{a}:{b}]: {got!r} != {want!r}'}
    return {'ok': True, 'cases': cases}


def selftest_format_table(_p=None):
    """The struct formats of the real RepresentationCode table are the standard's (this also pins FSINGL/FDOUBL,
    whose values are outside the solver's reach) and the float packers agree with IEEE-754 big-endian on boundaries."""
    import math
    from dliswriter.utils.internal.internal_enums import RepresentationCode as RepC
    want = {'FSINGL': '>f', 'FDOUBL': '>d', 'SSHORT': '>b', 'SNORM': '>h', 'SLONG': '>i', 'USHORT': '>B', 'UNORM': '>H',
            'ULONG': '>I', 'STATUS': '>B'}
    cases = 0
    for name, fmt in want.items():
        got = RepC[name].converter.format
        cases += 1
        if got != fmt:
            return {'ok': False, 'detail': f'RepresentationCode.{name} packs with {got!r}, the standard needs {fmt!r}'}
    codes = {'FSINGL': 2, 'FDOUBL': 7, 'SSHORT': 12, 'SNORM': 13, 'SLONG': 14, 'USHORT': 15, 'UNORM': 16, 'ULONG': 17,
             'UVARI': 18, 'IDENT': 19, 'ASCII': 20, 'DTIME': 21, 'OBNAME': 23, 'OBJREF': 24, 'STATUS': 26}
    for name, v in codes.items():
        cases += 1
        if RepC[name].value != v:
            return {'ok': False, 'detail': f'RepresentationCode.{name} = {RepC[name].value}, the standard says {v}'}
    for x in (0.0, -0.0, 1.5, float('inf'), float('-inf'), 1e-45, 3.4028234663852886e38, 5e-324, 1.7976931348623157e308):
        for name, fmt in (('FSINGL', '>f'), ('FDOUBL', '>d')):
            try:
                a = bytes(RepC[name].convert(x))
            except (OverflowError, struct.error):
                a = None
            try:
                b = struct.pack(fmt, x)
            except (OverflowError, struct.error):
                b = None
            cases += 1
            if a != b:
                return {'ok': False, 'detail': f'{name}({x})'}
    nan = bytes(RepC.FDOUBL.convert(float('nan')))
    if not math.isnan(struct.unpack('>d', nan)[0]):
        return {'ok': False, 'detail': 'NaN'}
    return {'ok': True, 'cases': cases}
