"""Differential self-validation of the stubs against the real leaves (run at the start of every check)."""
import random
import struct


def selftest_rope_struct(_p=None):
    from vf.stubs.rope import Rope, StructShim
    cases = 0
    # StructShim vs struct.Struct on boundary ints of every integer format used by the RepresentationCode table
    fmts = {'>B': (0, 255), '>H': (0, 65535), '>I': (0, 2 ** 32 - 1), '>b': (-128, 127), '>h': (-32768, 32767),
            '>i': (-2 ** 31, 2 ** 31 - 1)}
    for fmt, (lo, hi) in fmts.items():
        real = struct.Struct(fmt)
        shim = StructShim(fmt)
        if shim.size != real.size:
            return {'ok': False, 'detail': f'size {fmt}'}
        for v in (lo, lo + 1, -1, 0, 1, 127, 128, 255, 256, hi - 1, hi, hi + 1, lo - 1):
            try:
                want = real.pack(v)
            except struct.error:
                want = None
            try:
                got = shim.pack(v).to_bytes()
            except struct.error:
                got = None
            cases += 1
            if want != got:
                return {'ok': False, 'detail': f'StructShim({fmt}).pack({v}): {got} != {want}'}
    # Rope slicing / concatenation vs bytes
    rnd = random.Random(7)
    src = bytes(rnd.randrange(256) for _ in range(50))
    for _ in range(300):
        a, b = rnd.randrange(-60, 60), rnd.randrange(-60, 60)
        r = Rope.source('s', len(src))
        got = (b'\x01\x02' + r[a:b] + b'\x03').to_bytes({'s': src})
        want = b'\x01\x02' + src[a:b] + b'\x03'
        cases += 1
        if got != want or len(b'\x01\x02' + r[a:b] + b'\x03') != len(want):
            return {'ok': False, 'detail': f'Rope slice [{a}:{b}]'}
        multi = (Rope.lit([9, 8, 7]) + r + b'xyz')
        got = multi[a:b].to_bytes({'s': src})
        want = (bytes([9, 8, 7]) + src + b'xyz')[a:b]
        cases += 1
        if got != want:
            return {'ok': False, 'detail': f'multi-part Rope slice [{a}:{b}]: {got!r} != {want!r}'}
    return {'ok': True, 'cases': cases}


def selftest_format_table(_p=None):
    """The struct formats of the real RepresentationCode table are the standard's (this also pins FSINGL/FDOUBL,
    whose values are outside the solver's reach) and the float packers agree with IEEE-754 big-endian on boundaries."""
    import math
    from dliswriter.utils.internal.internal_enums import RepresentationCode as RepC
    want = {'FSINGL': '>f', 'FDOUBL': '>d', 'SSHORT': '>b', 'SNORM': '>h', 'SLONG': '>i', 'USHORT': '>B', 'UNORM': '>H',
            'ULONG': '>I', 'STATUS': '>B'}
    cases = 0
    for name, fmt in want.items():
        got = RepC[name].converter.format
        cases += 1
        if got != fmt:
            return {'ok': False, 'detail': f'RepresentationCode.{name} packs with {got!r}, the standard needs {fmt!r}'}
    codes = {'FSINGL': 2, 'FDOUBL': 7, 'SSHORT': 12, 'SNORM': 13, 'SLONG': 14, 'USHORT': 15, 'UNORM': 16, 'ULONG': 17,
             'UVARI': 18, 'IDENT': 19, 'ASCII': 20, 'DTIME': 21, 'OBNAME': 23, 'OBJREF': 24, 'STATUS': 26}
    for name, v in codes.items():
        cases += 1
        if RepC[name].value != v:
            return {'ok': False, 'detail': f'RepresentationCode.{name} = {RepC[name].value}, the standard says {v}'}
    for x in (0.0, -0.0, 1.5, float('inf'), float('-inf'), 1e-45, 3.4028234663852886e38, 5e-324, 1.7976931348623157e308):
        for name, fmt in (('FSINGL', '>f'), ('FDOUBL', '>d')):
            try:
                a = bytes(RepC[name].convert(x))
            except (OverflowError, struct.error):
                a = None
            try:
                b = struct.pack(fmt, x)
            except (OverflowError, struct.error):
                b = None
            cases += 1
            if a != b:
                return {'ok': False, 'detail': f'{name}({x})'}
    nan = bytes(RepC.FDOUBL.convert(float('nan')))
    if not math.isnan(struct.unpack('>d', nan)[0]):
        return {'ok': False, 'detail': 'NaN'}
    return {'ok': True, 'cases': cases}


def selftest_memio(_p=None):
    """RopeArray vs a real bytearray under BufferedOutput's access pattern; FakeFS vs a real file."""
    import os
    import tempfile
    from vf.stubs.rope import Rope
    from vf.stubs.memio import RopeArray, FakeFS
    rnd = random.Random(3)
    cases = 0
    for _ in range(200):
        size = rnd.randrange(1, 60)
        real = bytearray(size)
        stub = RopeArray(size)
        fill = 0
        srcs = {}
        for k in range(rnd.randrange(0, 5)):
            n = rnd.randrange(0, 25)
            data = bytes(rnd.randrange(256) for _ in range(n))
            srcs[f's{k}'] = data
            new = fill + n
            real[fill:new] = data
            stub[fill:new] = Rope.source(f's{k}', n)
            fill = new
            cases += 1
            if (len(real) != size) != stub.resized and new <= size:
                return {'ok': False, 'detail': 'resize flag'}
            if new > size:
                break
        if fill <= size and not stub.resized:
            srcs['zeros'] = bytes(size)
            for cut in (0, fill // 2, fill, size):
                if stub[:cut].to_bytes(srcs) != bytes(real[:cut]):
                    return {'ok': False, 'detail': f'prefix read {cut} of fill {fill}'}
                cases += 1
    fd, path = tempfile.mkstemp()
    os.close(fd)
    try:
        fs = FakeFS({path: Rope.lit(b'old stuff')})
        with open(path, 'wb') as f:
            f.write(b'old stuff')
        for mode, data in (('wb', b'abc'), ('ab', b'defg'), ('ab', b''), ('wb', b'x')):
            with open(path, mode) as f:
                f.write(data)
            with fs.open(path, mode) as f:
                f.write(data)
            with open(path, 'rb') as f:
                want = f.read()
            cases += 1
            if fs.files[path].to_bytes() != want:
                return {'ok': False, 'detail': f'FakeFS {mode}'}
    finally:
        os.remove(path)
    return {'ok': True, 'cases': cases}


def selftest_tokens_vs_strict(_p=None):
    """The symbolic-friendly token parser and the concrete strict reader agree on every EFLR of a real file written by
    the unmodified package (structure, counts, codes, values)."""
    import io
    import sys
    sys.stderr = io.StringIO()
    import numpy as np
    from dliswriter import DLISFile
    from vf.rp66 import strict, tokens as tk
    from vf.replay.build import write_and_read
    df = DLISFile()
    lf = df.add_logical_file()
    lf.add_origin('ORIGIN', file_set_number=11, creation_time='2020/01/01 00:00:00', programs=['a', 'bb'], run_number=7)
    ax = lf.add_axis('AX', coordinates=[1.5, 2.5], spacing=0.5)
    ch = lf.add_channel('CH', data=np.arange(6, dtype=np.int16).reshape(3, 2), units='m', axis=ax)
    ch2 = lf.add_channel('CH2', data=np.arange(3, dtype=np.float32), dataset_name='other')
    lf.add_zone('Z', set_name='ZS')
    lf.add_frame('FR', channels=(ch, ch2), description='frame')
    z = lf.add_zone('Z', domain='TIME', maximum=12.5, minimum=1.0, set_name='ZS')
    lf.add_parameter('P', values=[[1, 2], [3, 4]], zones=[z, z], dimension=[2])
    lf.add_comment('CM', text=['x' * 200, ''])
    lf.add_group('G', object_list=[z])
    lf.add_equipment('E', status=1, serial_number='s')
    data = write_and_read(df)
    r = strict.parse_file(data)
    cases = 0
    for rec in r['records']:
        if not rec.is_eflr:
            continue
        e = strict.parse_eflr(rec.body)
        ps, rule = tk.parse_eflr([('b', b) for b in rec.body])
        cases += 1
        if ps is None:
            return {'ok': False, 'detail': f'token parser rejects set {e.set_type}: rule {rule}'}
        if tk.text_str(ps.type) != e.set_type or (ps.name is None) != (e.set_name is None):
            return {'ok': False, 'detail': f'set header differs for {e.set_type}'}
        if [tk.text_str(a.label) for a in ps.template] != [a.label for a in e.template]:
            return {'ok': False, 'detail': f'template differs for {e.set_type}'}
        if len(ps.objects) != len(e.objects):
            return {'ok': False, 'detail': f'object count differs for {e.set_type}'}
        for (ob1, at1), (ob2, at2) in zip(ps.objects, e.objects):
            if (ob1[0], ob1[1], tk.text_str(ob1[2])) != ob2:
                return {'ok': False, 'detail': f'object name differs in {e.set_type}'}
            for a1, a2 in zip(at1, at2):
                cases += 1
                if a1.absent != a2.absent:
                    return {'ok': False, 'detail': f'absent flag differs for {a2.label}'}
                if a1.absent:
                    continue
                if a1.count != a2.count or a1.code != a2.code or (a1.values is None) != (a2.value is None):
                    return {'ok': False, 'detail': f'characteristics differ for {a2.label}: {a1.count},{a1.code} vs {a2.count},{a2.code}'}
                if a1.values is not None and len(a1.values) != len(a2.value):
                    return {'ok': False, 'detail': f'value count differs for {a2.label}'}
                if a1.values is not None:
                    for v1, v2 in zip(a1.values, a2.value):
                        if v1[0] == 'int' and v1[1] != v2:
                            return {'ok': False, 'detail': f'int value differs for {a2.label}'}
                        if v1[0] in ('ident', 'ascii') and tk.text_str(v1[1]) != v2:
                            return {'ok': False, 'detail': f'text value differs for {a2.label}'}
                        if v1[0] == 'float' and struct.unpack('>d' if len(v1[1]) == 8 else '>f', bytes(v1[1]))[0] != v2:
                            return {'ok': False, 'detail': f'float value differs for {a2.label}'}
                        if v1[0] == 'obname' and (v1[1][0], v1[1][1], tk.text_str(v1[1][2])) != v2:
                            return {'ok': False, 'detail': f'obname differs for {a2.label}'}
    return {'ok': True, 'cases': cases}


def selftest_npstub(_p=None):
    """Differential validation of vf.stubs.npstub against real numpy on small concrete arrays: slice clamping,
    views vs copies, field assignment (copy / broadcast / error), row iteration (scalar vs sub-array element dtype and
    byte order), byteswap / astype / tobytes memory order, structured dtype equality, native byte order."""
    import sys
    import numpy as np
    from vf.stubs import npstub as nps
    if (sys.byteorder == 'little') != (nps.NATIVE == '<'):
        return {'ok': False, 'detail': 'native byte order'}
    rnd = random.Random(11)
    cases = 0
    total = 9
    for order in ('<', '>'):
        for name, w in (('int16', None), ('float32', 3), ('uint32', 2), ('float64', None)):
            real_dt = np.dtype(name).newbyteorder(order)
            src = (np.arange(total * (w or 1)).reshape((total, w) if w else (total,)) % 100).astype(real_dt)
            stub = nps.ndarray('caller', 'c', 0, total, nps.SDtype(name, order), w)
            if stub.shape != src.shape or stub.ndim != src.ndim or len(stub) != len(src):
                return {'ok': False, 'detail': 'shape'}
            for _ in range(60):
                lo, hi = rnd.choice([None, rnd.randrange(-12, 12)]), rnd.choice([None, rnd.randrange(-12, 12)])
                r, s = src[lo:hi], stub[lo:hi]
                cases += 1
                if not np.array_equal(r, src[s.a:s.b]) or s.shape != r.shape:
                    return {'ok': False, 'detail': f'slice [{lo}:{hi}]'}
                if np.shares_memory(r, src) != (s.is_view and s.owner == 'caller') and len(r):
                    return {'ok': False, 'detail': 'view flag'}
                r2, s2 = r[1:3], s[1:3]
                if not np.array_equal(r2, src[s2.a:s2.b]):
                    return {'ok': False, 'detail': 'nested slice'}
            # chunk assembly and row iteration
            fdt = [('k', real_dt, w)] if w else [('k', real_dt)]
            sdt = nps.dtype([('k', nps.SDtype(name, order), w)] if w else [('k', nps.SDtype(name, order))])
            if not isinstance(sdt, nps.dtype) or sdt.names != np.dtype(fdt).names:
                return {'ok': False, 'detail': 'struct dtype'}
            for n, lo, hi in ((4, 2, 6), (4, 3, 4), (4, 1, 4), (1, 5, 6)):
                rc = np.zeros(n, dtype=np.dtype(fdt))
                sc = nps.zeros(n, dtype=sdt)
                try:
                    rc['k'] = src[lo:hi]
                    rerr = None
                except ValueError as e:
                    rerr = e
                try:
                    sc['k'] = stub[lo:hi]
                    serr = None
                except ValueError as e:
                    serr = e
                cases += 1
                if (rerr is None) != (serr is None):
                    return {'ok': False, 'detail': f'field assignment {hi - lo} rows into {n}: real {rerr}, stub {serr}'}
                if rerr is not None:
                    continue
                if np.shares_memory(rc, src):
                    return {'ok': False, 'detail': 'field assignment must copy'}
                for i, (rrow, srow) in enumerate(zip(rc, sc)):
                    (re,), (se,) = tuple(rrow), tuple(srow)
                    want_vals = np.asarray(src[se.row]).reshape(-1)
                    if not np.array_equal(np.asarray(re).reshape(-1), want_vals):
                        return {'ok': False, 'detail': f'row provenance {i}'}
                    if isinstance(re, np.ndarray) != (se.width is not None):
                        return {'ok': False, 'detail': 'scalar vs sub-array element'}
                    rbo = '<' if re.dtype.byteorder in ('=', '|', '<') else '>'
                    if re.dtype.byteorder == '=' or re.dtype.byteorder == '|':
                        rbo = nps.NATIVE
                    if rbo != se.dtype.byteorder:
                        return {'ok': False, 'detail': f'element byte order: real {re.dtype.byteorder} stub {se.dtype.byteorder}'}
                    fmt = {'int16': 'h', 'float32': 'f', 'uint32': 'I', 'float64': 'd'}[name]
                    be = struct.pack('>' + str(len(want_vals)) + fmt, *want_vals.tolist())
                    le = struct.pack('<' + str(len(want_vals)) + fmt, *want_vals.tolist())
                    for how in ('byteswap', 'astype'):
                        if how == 'byteswap':
                            rb, sb = re.byteswap().tobytes(), se.byteswap().tobytes()
                        else:
                            rb = np.asarray(re).astype(re.dtype.newbyteorder('>')).tobytes()
                            sb = nps.asarray(se).astype(se.dtype.newbyteorder('>')).tobytes()
                        tag = sb.parts[0][1].split('|')[2]
                        cases += 1
                        if rb != (be if tag == '>' else le):
                            return {'ok': False, 'detail': f'{how}().tobytes() memory order: stub says {tag}'}
                        if sb.parts[0][3] - sb.parts[0][2] != len(rb):
                            return {'ok': False, 'detail': 'tobytes length'}
    # structured dtype equality and the fast-path view
    A = np.dtype([('A', '<i4'), ('B', '<f8', 3)])
    sA = nps.StructDtype([('A', nps.SDtype('int32', '<')), ('B', nps.SDtype('float64', '<'), 3)])
    variants = [([('A', '<i4'), ('B', '<f8', 3)], [('A', 'int32', '<', None), ('B', 'float64', '<', 3)]),
                ([('B', '<f8', 3), ('A', '<i4')], [('B', 'float64', '<', 3), ('A', 'int32', '<', None)]),
                ([('A', '>i4'), ('B', '<f8', 3)], [('A', 'int32', '>', None), ('B', 'float64', '<', 3)]),
                ([('A', '<i4'), ('B', '<f8', 2)], [('A', 'int32', '<', None), ('B', 'float64', '<', 2)]),
                ([('A', '<i4'), ('B', '<f4', 3)], [('A', 'int32', '<', None), ('B', 'float32', '<', 3)])]
    for rv, sv in variants:
        cases += 1
        sdt2 = nps.StructDtype([(n, nps.SDtype(t, o), w) if w else (n, nps.SDtype(t, o)) for (n, t, o, w) in sv])
        if (np.dtype(rv) == A) != (sdt2 == sA):
            return {'ok': False, 'detail': f'struct dtype equality {rv}'}
    arr = np.zeros(6, dtype=A)
    if not np.shares_memory(arr[1:3], arr) or not np.shares_memory(arr['A'], arr):
        return {'ok': False, 'detail': 'numpy view semantics changed'}
    if np.dtype(np.float64) != np.float64 or nps.SDtype('float64') != nps.float64:
        return {'ok': False, 'detail': 'dtype == scalar type'}
    # structured dtype surface (round 6): .fields offsets / .itemsize, and view() to an equally laid out dtype = positional relabel
    rdt = np.dtype([('p', '<f8'), ('q', '<i2', 3), ('r', '<f8')])
    sdt = nps.StructDtype([('p', nps.SDtype('float64', '<')), ('q', nps.SDtype('int16', '<'), 3), ('r', nps.SDtype('float64', '<'))])
    cases += 1
    if sdt.itemsize != rdt.itemsize or [sdt.fields[n][1] for n in sdt.names] != [rdt.fields[n][1] for n in rdt.names] or len(sdt) != len(rdt):
        return {'ok': False, 'detail': 'structured dtype fields / itemsize'}
    rarr = np.zeros(4, dtype=rdt)
    rarr['p'], rarr['r'] = np.arange(4), np.arange(4) + 100
    rdt2 = np.dtype([('r', '<f8'), ('q', '<i2', 3), ('p', '<f8')])
    rv = rarr[1:3].view(rdt2)
    sarr = nps.structarr('caller', 4, sdt, {'p': nps.Field('caller', 'colP', 0, sdt['p'], None), 'q': nps.Field('caller', 'colQ', 0, sdt['q'], 3),
                                            'r': nps.Field('caller', 'colR', 0, sdt['r'], None)})
    sdt2 = nps.StructDtype([('r', nps.SDtype('float64', '<')), ('q', nps.SDtype('int16', '<'), 3), ('p', nps.SDtype('float64', '<'))])
    sv = sarr[1:3].view(sdt2)
    cases += 1
    # real: field 'r' of the view shows column p (rows 1, 2); stub: the same provenance, and still the caller's memory
    if list(rv['r']) != [1.0, 2.0] or sv.fields['r'].column != 'colP' or sv.fields['r'].a != 1 or sv.fields['p'].column != 'colR' \
            or not np.shares_memory(rv, rarr) or not (sv.is_view and sv.owner == 'caller') or sv.n != 2:
        return {'ok': False, 'detail': 'structured view()'}
    return {'ok': True, 'cases': cases}


BITS_NAMES = ['int8', 'int16', 'int32', 'int64', 'uint8', 'uint16', 'uint32', 'uint64']


def selftest_npvalues(_p=None):
    """npvalues vs real numpy on integer index arrays: diff (same-dtype wrap), astype(int64), unique, median == 0,
    min/max, comparisons."""
    import numpy as np
    from vf.stubs import npvalues as npv
    rnd = random.Random(5)
    cases = 0
    for name in ('int8', 'int16', 'int32', 'uint8', 'uint16', 'uint32'):
        info = np.iinfo(name)
        for _ in range(150):
            n = rnd.randrange(1, 5)
            vals = [rnd.choice([info.min, info.max, 0, 1, info.max - 1, rnd.randrange(info.min, info.max + 1)]) for _ in range(n)]
            real = np.array(vals, dtype=name)
            stub = npv.VArr(vals, npv.IDtype(name))
            cases += 1
            if np.diff(real).tolist() != npv.diff(stub).vals:
                return {'ok': False, 'detail': f'diff {name} {vals}: {np.diff(real).tolist()} vs {npv.diff(stub).vals}'}
            wide = real.astype(np.int64)
            if np.diff(wide).tolist() != npv.diff(stub.astype(npv.int64)).vals:
                return {'ok': False, 'detail': f'diff after astype(int64) {name} {vals}'}
            if np.unique(np.diff(wide)).tolist() != npv.unique(npv.diff(stub.astype(npv.int64))).vals:
                return {'ok': False, 'detail': 'unique'}
            if int(real.min()) != stub.min() or int(real.max()) != stub.max():
                return {'ok': False, 'detail': 'min/max'}
            if n >= 2:
                d = np.diff(wide)
                if (np.median(d).item() == 0) != (npv.median(npv.diff(stub.astype(npv.int64))).item() == 0):
                    return {'ok': False, 'detail': 'median == 0'}
                u = np.unique(d)
                su = npv.unique(npv.diff(stub.astype(npv.int64)))
                if bool((u == 0).all()) != (su == 0).all() or bool((u >= 0).all()) != (su >= 0).all() or bool((u <= 0).all()) != (su <= 0).all():
                    return {'ok': False, 'detail': 'comparisons'}
            if not np.issubdtype(real.dtype, np.integer) or not npv.issubdtype(stub.dtype, npv.integer):
                return {'ok': False, 'detail': 'issubdtype'}
    for na in BITS_NAMES:
        for nb in BITS_NAMES:
            if {na, nb} & {'uint64'} and not (na.startswith('u') and nb.startswith('u')):
                continue
            cases += 1
            if np.promote_types(na, nb).name != npv.promote_types(npv.IDtype(na), npv.IDtype(nb)).name:
                return {'ok': False, 'detail': f'promote_types {na} {nb}'}
    # float64 arrays of integer-valued numbers (|v| <= 2**50) and NaN: diff, unique (one NaN, last), median, min / max,
    # comparisons, the tolerance expression - numpy's NaN semantics vs the NAN sentinel
    import math
    import warnings

    def same(x, y):
        if y is npv.NAN:
            return isinstance(x, float) and math.isnan(x)
        return x == y
    for _ in range(600):
        n = rnd.randrange(1, 6)
        vals = [rnd.choice([None, None, 0, 1, -1, 2 ** 50, -2 ** 50, rnd.randrange(-50, 50), rnd.randrange(-2 ** 50, 2 ** 50)]) for _ in range(n)]
        real = np.array([float('nan') if v is None else float(v) for v in vals], dtype=np.float64)
        stub = npv.VArr([npv.NAN if v is None else v for v in vals], npv.float64)
        cases += 1
        if np.issubdtype(real.dtype, np.integer) or npv.issubdtype(stub.dtype, npv.integer):
            return {'ok': False, 'detail': 'float issubdtype'}
        with warnings.catch_warnings():
            warnings.simplefilter('ignore')
            if not same(real.min().item(), stub.min()) or not same(real.max().item(), stub.max()):
                return {'ok': False, 'detail': f'float min/max {vals}'}
            if n < 2:
                continue
            d, sd = np.diff(real), npv.diff(stub)
            if len(d) != len(sd.vals) or not all(same(d[i].item(), sd.vals[i]) for i in range(len(d))):
                return {'ok': False, 'detail': f'float diff {vals}'}
            u, su = np.unique(d), npv.unique(sd)
            if len(u) != len(su.vals) or not all(same(u[i].item(), su.vals[i]) for i in range(len(u))):
                return {'ok': False, 'detail': f'float unique {vals}: {u.tolist()} vs {su.vals}'}
            for (ra, sa) in (((u == 0).all(), (su == 0).all()), ((u >= 0).all(), (su >= 0).all()), ((u <= 0).all(), (su <= 0).all())):
                if bool(ra) != bool(sa):
                    return {'ok': False, 'detail': f'float comparisons {vals}'}
            m, sm = np.median(d).item(), npv.median(sd).item()
            if math.isnan(m) != (sm is npv.NAN):
                return {'ok': False, 'detail': f'float median nan {vals}'}
            if (m == 0) != bool(sm == 0):
                return {'ok': False, 'detail': f'float median == 0 {vals}'}
            if m != 0:
                npv.EXACT_TOL[0] = True
                try:
                    rdev = (1 - u / m) ** 2
                    sdev = (1 - su / sm) ** 2
                    rl, rg = (rdev < 0.001), (rdev >= 0.001)
                    for tol in (False, True):
                        npv.TOLERANCE_ORACLE[0] = tol
                        sl, sg = (sdev < 0.001), (sdev >= 0.001)
                        for i in range(len(u)):
                            if math.isnan(rdev[i]):
                                if sl.vals[i] or sg.vals[i]:
                                    return {'ok': False, 'detail': f'NaN deviation compares True {vals}'}
                            else:
                                if bool(sl.vals[i]) == bool(sg.vals[i]):
                                    return {'ok': False, 'detail': f'< and >= not complementary {vals}'}
                                # outside the band the stub decides; it must agree with the float computation
                                if abs(float(rdev[i]) - 0.001) > 1e-4 and bool(sl.vals[i]) != bool(rl[i]):
                                    return {'ok': False, 'detail': f'tolerance outcome {vals}'}
                finally:
                    npv.EXACT_TOL[0] = False
                    npv.TOLERANCE_ORACLE[0] = False
    return {'ok': True, 'cases': cases}
