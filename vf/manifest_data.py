"""What MANIFEST.json claims, per property.  Properties without a working check are listed under NOT_APPLICABLE
(with the reason) until their check lands."""

CHECKS = {
    'C01': dict(
        text='Bounded symbolic execution (CrossHair/z3, all paths) of the real segmenter, visible-record wrapper, '
             'record-length check and storage-unit-label encoder: for every even capacity 12..16376, every body length '
             'up to 3 (thorough 6) capacities + 30, both record kinds and every type byte the yielded segments satisfy '
             'the RP66 segment rules; label fields proved by digit arithmetic for every sequence number / record length.'
         ' Also: the loop step and the segment arithmetic for ALL body lengths by SMT (K2, z3 + cvc5); the wiring of write_logical_records for every record length; a monolithic two-record run at small bounds; fixed-width label / header text fields at their limit with trailing blanks (enumerated window).',
        note='Trusted: CrossHair model of CPython incl. struct.pack on ints; Rope/StructShim/LenStr stubs (validated each '
             'run); bodies are abstract (content is C04/C06). Longer bodies are outside the engine-A bound.'),
    'C15': dict(
        text='Same run as C01 with the assertion "no exception": every body length >= 1 and every capacity vrl-8 for an '
             'accepted vrl is segmented successfully; targeted witnesses for bodies < 12 bytes and capacities 12..22.',
        note='As C01. File-level confirmation of each witness through DLISFile.write and the strict reader.'),
}

CHECKS['C06'] = dict(
    smt=True,
    text='Each representation code the writer uses is executed symbolically on the real write_struct dispatch: the six '
         'fixed-width integer codes, UVARI and STATUS over ALL integers (in range => exact big-endian bytes, out of range '
         '=> exception), IDENT/ASCII with symbolic length (prefix form, rejection limits) and short fully symbolic text, '
         'OBNAME/OBJREF with symbolic origin/copy/name length, DTIME with symbolic calendar fields; UVARI additionally as '
         'LIA over Z and the DTIME millisecond rounding as an IEEE-754 query on z3 and cvc5.'
         ' Boundary windows around every UVARI threshold, every integer range edge and the OBNAME limits are additionally decided by enumeration (an encoder rewritten with bit operators only makes the symbolic obligations inconclusive).',
    note='FSINGL/FDOUBL values are delegated to struct.pack (only the format table is pinned); non-ASCII rejection is a '
         'call-site contract on .encode("ascii"); strings longer than 3 characters have abstract content.')
CHECKS['C01']['smt'] = True
CHECKS['C15']['smt'] = True

CHECKS['C02'] = dict(
    smt=True,
    text='Provenance version of the segment contract: the body parts of the yielded segments are proved (all paths, every '
         'capacity, lengths up to 3/6 capacities; loop step for ALL lengths by SMT) to be contiguous source ranges covering '
         'the body exactly once in order, with predecessor/successor/EFLR/type bits as the standard requires; the real '
         'write_logical_records is proved to wrap every segment in its own visible record in generator order (wiring, all '
         'record lengths) and a monolithic two-record run at small bounds confirms the composition; the per-class record '
         'type byte cache is checked for every ordered pair of record classes.',
    note='Byte equality rests on Python bytes slicing/concatenation (trusted): the solver proves *which* ranges go where. '
         'Two records per run; more follow from the per-record structure of the loop (ob_wiring).')
CHECKS['C10'] = dict(
    text='One step of BufferedOutput from an arbitrary pre-state (buffer up to 2**33, any fill) + final flush: bytes reach '
         'the writer once, in order, every flush <= chunk and on a record boundary, total_size exact; ByteWriter over a fake '
         'file system: first write truncates prior content, later ones append; chunk-size check over all integers; wiring + '
         'monolithic glue with symbolic output chunk size.'
         ' make_chunked_generator tiling and MultiFrameData iteration for every input chunk size (shared with C03/C11).',
    note='Independence from input_chunk_size is the chunk-tiling obligation of C03/C11 (not repeated here). Float chunk sizes and '
         'the OS honouring wb/ab are outside the solver; RopeArray/FakeFS are validated against bytearray / a real file each run.')
CHECKS['C16'] = dict(
    text='NoFormatFrameData._make_body_bytes proved to be reference || payload exactly (symbolic reference fields, payload '
         'length 0..40000 / 2**30, bytes/bytearray/str, strict ascii at the call site); short symbolic text equals its ASCII '
         'bytes; call order of payloads over two objects is preserved for all 24 add orders x set namings (exhaustive).',
    note='Payload byte values are abstract (range provenance). Survival through segmentation is C02. Each witness is replayed '
         'through DLISFile.write and the strict reader.')
CHECKS['C04'] = dict(
    smt=True,
    text='For every attribute signature found by introspection (thorough: every one of the 169 attribute sites of the 21 object '
         'types) the real setter + EFLRSet._make_body_bytes output is parsed by an independent RP66 component grammar written in '
         'solver-friendly arithmetic: set component, template labels, object headers with copy numbers, per-attribute count / '
         'representation code / units / values, absent markers, nothing left over; symbolic multiplicity ([] .. nested), units, '
         'symbolic integer values over the full code range and symbolic short text.',
    note='One assigned attribute per object (components are concatenated independently); floats and date-times are concrete '
         'examples; objects are constructed outside tracing from concrete arguments; kint/kfloat shims justified by lemma K4.')

CHECKS['C07'] = dict(
    text='Copy-number step over four objects with symbolic names (every equality pattern of names decided by the solver); one '
         'identity (symbolic origin, copy, name length) proved to be written identically in the object header, an OBNAME value, '
         'an OBJREF value and at the head of frame-data and no-format records; every reference attribute x every item class '
         'accepts exactly its admissible class and stores the object passed; origin numbering with two symbolic explicit/default '
         'references and a zone added before/between/after; uniqueness across sets of one type (known finding F6 excluded by '
         'predicate and decided separately by an existence obligation).'
         ' Copy numbers with symbolic explicit origin references before/after the origin exists; DLISFile.generate_logical_records over two logical files.',
    note='Explicit origin references naming no ORIGIN are accepted by design and not asserted. F6 (same name in two sets of one '
         'type) is a recorded known finding.')
CHECKS['C09'] = dict(
    text='The real DLISFile.generator over real LogicalFile objects built by real add_* calls in all 24 orders x named sets x 1-2 '
         'origins yields header (one object), ORIGIN set with the defining origin first, every other set once and non-empty, then '
         'no-format records in call order, then frame data; the FILE-HEADER record is parsed by the component grammar with the '
         'sequence number proved right-justified in 10 by digit arithmetic and the id left-justified in 65; construction-time '
         'rejections over all integers; set registry step from all 64 states; FILE-ID / FILE-SET-NUMBER / clock / RNG use.'
         ' An empty set (e.g. left by a rejected call) yields no segment for every item class and capacity; the origin-set order for 5 configurations of named/unnamed origin sets.',
    note='Frame data is represented by an iterable stub in the order obligation (its own structure is C03). RNG and clock are '
         'nondeterministic stubs.')
CHECKS['C17'] = dict(
    smt=True,
    text='Context manager/decorator: any initial flag, nesting <= 3, exception at any level => True inside, restored after. Name '
         'rule with a fully symbolic string (len <= 3, any code point) against a character-wise oracle, and the regular-language '
         'equality HC_STRING_PATTERN == [A-Z0-9_-]+ for ALL lengths on three solvers; the three name entry points; soft enum '
         'converters and the attributes wired to them x mode; channel/frame incidence matrices x mode; sequential file-set numbers.',
    note='Signed-integer data and non-uniform spacing in the mode depend on numpy results and are decided with C08/C13.')

NP_NOTE = ('Sits on the npstub contract (numpy view/copy, slicing, field assignment/broadcast, scalar-vs-subarray element byte order), '
           'validated differentially against real numpy on every run; element values, casts and HDF5 I/O are numpy/h5py C code and are '
           'exercised only by the replays of each witness.')
CHECKS['C11'] = dict(
    text='For each of the four source kinds (dict, structured array copy path, structured array fast path, HDF5 with one mapping entry '
         'with and one without leading slash, unused datasets, permuted source order) and symbolic total/window/chunk bounds the chunk '
         'returned by the real wrappers is proved to show exactly source rows [from+start, from+stop) of every channel in the frame\'s '
         'channel order; invalid windows are refused; MultiFrameData yields one numbered record per row for every input chunk size; '
         'make_chunked_generator tiles [0,n) exactly once.'
         ' Unique dataset names for three channels with symbolic names and explicit dataset names; a fifth source kind (structured array with permuted fields).',
    note=NP_NOTE + ' Byte-identity of the files across source kinds / chunk sizes / pre-sliced inline arrays is confirmed by replay on every witness, not by the solver.')
CHECKS['C03'] = dict(
    text='Structure of the frame-data stream: exactly one FrameData per row, numbered 1..N, referencing its frame, row k carrying source '
         'row from+k; body = frame OBNAME || UVARI(frame number) || slots in channel order, each itemsize x width bytes and most '
         'significant byte first for either source byte order, scalar or 2-D, all 8 dtypes, all four source kinds.',
    note=NP_NOTE + ' The bit-exact value round trip (NaN payloads, casts, strides) is outside the solver: decided structurally only, as stated in DESIGN.')
CHECKS['C08'] = dict(
    text='After the real set-up from data, for symbolic width (0..2**20), dtype, cast dtype and user dimension/element limit: '
         'REPRESENTATION-CODE is the code of the dtype written, DIMENSION the per-row shape, ELEMENT-LIMIT bounds it, inconsistent user '
         'values raise; together with the frame-data body obligation the record length formula follows.',
    note=NP_NOTE)
CHECKS['C19'] = dict(
    text='Taint obligation over the whole Python-level data path (4 source kinds x cast x byte order x chunking): no in-place operation '
         'reaches caller-owned memory or a view of it; the dict passed as data keeps its keys and value objects and nothing passed is '
         'retained in the specification.'
         ' Cast targets include integer dtypes (masked in-place assignment through a view is recorded by the stub).',
    note=NP_NOTE + ' The stub models these in-place operations: item/field assignment, byteswap(inplace), sort, fill, |=, +=, *=; anything else raises StubGap.')
CHECKS['C12'] = dict(
    text='Rejection side of fail-closed: different row counts, unsupported dtypes, >2 dimensions, missing datasets, empty/oversized '
         'windows, names/units/IDENT values/set names over 255 characters (symbolic lengths to 70000), integers outside every code\'s '
         'range (all of Z), UVARI/ASCII length limits, label and header field overflows, missing origin/channels/frames - each proved to '
         'raise; the degenerate empty value list is proved to be encoded as count 0.',
    note='"Accepted implies faithful" is the conjunction of the other checks. Non-ASCII rejection is the call-site contract of C06.')

CHECKS['C05'] = dict(
    smt=True,
    text='The item obligation of C04 compares every decoded value with what was assigned through the public setter (integers over '
         'the full code range, symbolic short text, references as the identity of the object passed, status, dimensions, units); the '
         'four assignment routes are proved equivalent for symbolic text and never-assigned attributes decode as absent; write-time '
         'defaults of channel / origin / parameter / computation are proved to be the only additions; DTIME fields symbolically plus '
         'the millisecond rounding as an IEEE-754 query; float(int).is_integer() lemma.'
         ' Every keyword of every add_* method (150 sites found by introspection) is proved to land in the attribute of that name and nowhere else; units given as a Unit enumeration member decode as its text.',
    note='Float and date-time values are concrete examples (struct / datetime C code); strptime parsing and local-time interpretation of '
         'naive datetimes are outside; text longer than 3 characters has abstract content.')
CHECKS['C13'] = dict(
    text='The real spacing/direction function on a value-level integer array stub (same-dtype wrapping np.diff validated against numpy): '
         'for all 6 integer dtypes, 1..3 rows and ALL values of the dtype, uniform differences give exactly the signed true difference, '
         'direction is the monotonic sense, a single row gives no spacing; the assignment logic (index type or not, user-supplied '
         'min/max/spacing/direction kept, units copied, refusal in the high-compatibility mode) over all flag combinations.'
         ' A 2-D first channel without index type gives INDEX-MAX = number of rows; user-supplied values include 0.',
    note='The near-uniform tolerance is decided in exact rationals except in the band |1 - d/median| in [0.031, 0.032] (float rounding may decide '
         'either way there: arbitrary outcome, nothing asserted). Float indices: integer-valued finite values of magnitude <= 2**50 and NaN only; '
         'non-integer floats, larger magnitudes and infinities are outside. F9 (values of the first write persist) is a recorded known finding.')
CHECKS['C14'] = dict(
    text='Per state carrier: memoised functions are found by introspection and decided by two obligations (only immutable values reach a '
         'memo - guards on every encode path; equal cache keys give equal uncached results over a value domain with 1 / 1.0 / True '
         'collisions), because CrossHair bypasses lru_cache; cached object names after rename / re-origin with symbolic identity; '
         'encode-step idempotence for every attribute signature; merged data not retained; mode flag restored; per-class type byte; '
         'clock / RNG consulted iff the value was not supplied; derived frame values (F9 known finding).',
    note='No second OS process is run: the claim is that no carrier listed in DESIGN appendix B leaks. F9 is open.')
CHECKS['C18'] = dict(
    text='Two logical files built by real add_* calls in six interleavings with symbolic zone-set names and explicit/default origin '
         'reference: either refused, or each file opens with its own header in creation order, its sets hold only its own objects and '
         'every object carries an origin of its own file; two frames with symbolic row counts and chunk sizes are numbered independently '
         'from 1 and carry only their own channels.'
         ' generate_logical_records over two logical files and inline data under equal dataset names with one dict passed to write.',
    note='F12 (same set class and name in two logical files gives one shared set object) is a recorded known finding, excluded by predicate '
         'and decided by an existence obligation. Frame data rides on the npstub contract.')
CHECKS['C20'] = dict(
    text='For every item class and four kinds of rejection a constructor call that raises leaves the set exactly as it was and a same-named '
         'object added afterwards gets the copy number it would have had; add_* calls rejected for an enumeration value, a reference, a '
         'cast dtype or a data argument leave no object, no data and no dataset name behind; encode-step idempotence (a write-time default '
         'must not make the next write fail).'
         ' Falsy invalid arguments; the empty set left by a rejected first use is never written; record order after a rejected call (F21 known finding for the first-use case).',
    note='A write that fails after the data-dependent set-up and is then repeated shares the carrier of F9 (known finding).')

# obligations added after the third round of seeded changes (multi-step and two-site defects)
_R3 = {
    'C01': ' DLISFile.write wiring: the writer is built with the maximum the label declares (own label, label changed after construction), label first, records generator arguments.',
    'C02': ' The declared length of the record sequence covers the records generated; a SizedGenerator is written in full whatever length (>= the records) it declares.',
    'C03': ' A second generation of a frame\'s records with data of another dtype: declared representation code == dtype of the slots, rows those of the second data.',
    'C04': ' Set names assigned / changed / removed after construction; two values given to a single-valued attribute (refused or encoded with count 2).',
    'C05': ' Re-assignment after a first encoding with a value of another kind or multiplicity: bytes of a fresh object.',
    'C06': ' OBNAME / OBJREF after rename or re-origin of the item; write_struct with the real memos on equal (==) values of different types / signs.',
    'C07': ' References after rename / re-origin of the referenced item (memo guards on).',
    'C08': ' Frames whose channel list repeats a name: refused or one slot per listed channel; second generation with another dtype.',
    'C10': ' Float chunk sizes with zero decimal part (concrete floats, symbolic record and body lengths); declared-length independence of the write loop.',
    'C11': ' Channel -> data set mapping read afresh for every generation (dataset_name re-assigned, same-named channel swapped in); dataset names distinct across channel sets; repeated channel names.',
    'C12': ' Frames whose channel list repeats a name are refused; two values on a single-valued attribute.',
    'C13': ' The near-uniform tolerance test in exact rational arithmetic (squares kept lazy) for 3..4 rows over all values of six integer dtypes; index channel with a cast dtype (metadata about the cast values).',
    'C14': ' write_struct entry point with the real lru caches over ordered pairs of equal values; re-assignment after an encoding; re-pointed data sets.',
    'C15': ' Declared record count >= records generated - 1 (the progress bar refuses values above its maximum when it redraws: slow = large records); DLISFile.write wiring of the label maximum.',
    'C16': ' A record serialised once follows its object\'s current identity afterwards (rename, other origin, re-pointed).',
    'C17': ' Frame set-up in the mode: non-uniform or single-row indexed frames are refused whether or not the user supplied a spacing.',
    'C18': ' Dataset names are distinct across the channel sets of a logical file (one data dictionary per logical file).',
    'C20': ' Rejected add_channel calls that carried valid data together with an invalid argument leave no data behind.',
}
for _k, _v in _R3.items():
    CHECKS[_k]['text'] = CHECKS[_k]['text'] + _v
CHECKS['C13']['note'] = CHECKS['C13']['note'].replace('The near-uniform float tolerance test is outside the claim: the stub returns an arbitrary boolean for it and nothing is asserted about the spacing in that branch;', 'The near-uniform tolerance is decided exactly except within |1 - d/median| in [0.031, 0.032] (float rounding; arbitrary outcome there);')
CHECKS['C10']['note'] = CHECKS['C10']['note'].replace('Float chunk sizes and ', 'Symbolic float chunk sizes (two concrete ones are run) and ')

# obligations added after the fourth round of seeded changes
_R4 = {
    'C01': ' The label is rendered from its current attributes (rendered, attribute re-assigned, rendered again).',
    'C03': ' Two channels of one frame fed from one data set with different casts: every slot is the source column cast directly to its channel\'s dtype.',
    'C04': ' Non-ASCII code points in text values are refused.',
    'C05': ' Lists handed to multi-valued attributes are not aliased; 26 numeric look-alike strings stay text unless the documented rule makes them numbers.',
    'C06': ' Lists of up to 12 integers with one arbitrary element (and concrete boundary windows): in range exact, outside SLONG refused.',
    'C07': ' Reference lists are not aliased; a rejected first add_origin leaves no reference behind.',
    'C08': ' Two channels on one data set: each declares the code of its own slot.',
    'C09': ' The file header is encoded from its current attributes (completed after construction, also after a first encoding).',
    'C11': ' Window bounds given as numpy integers; two channels on one data set.',
    'C12': ' An incomplete logical file is refused also when the only add_frame / add_channel call was rejected; a frame listing another logical file\'s channel is refused; long lists with an out-of-range integer.',
    'C13': ' INDEX-MIN / INDEX-MAX come from the rows, not from extremes declared on the index channel.',
    'C14': ' Label and header re-rendering; soft enumerations judged by the mode in force at each call, whatever was accepted earlier in the process; aliasing of caller lists.',
    'C15': ' The writer loop (monolithic two-record run) is registered here as well.',
    'C16': ' The buffer step obligations are registered here as well (payloads crossing output chunks).',
    'C17': ' A non-member value accepted outside the mode earlier is still refused inside it.',
    'C18': ' A frame of one logical file listing a channel object of another is refused.',
    'C19': ' FrameItem.setup_from_data never writes into the caller\'s index column (index type or not, cast or not, masks either way).',
    'C20': ' A rejected first add_origin (explicit or default reference) leaves neither references nor header state behind; completeness after rejected calls.',
}
for _k, _v in _R4.items():
    CHECKS[_k]['text'] = CHECKS[_k]['text'] + _v

# obligations added after the fifth round of seeded changes
_R5 = {'C01': " Round 5: the real BufferedOutput feeding the real ByteWriter over a file model (no file / prior file of any length; 'wb', 'ab', 'r+b' + seek, os.path.exists answered by the model): the file is label + whole records after every close and exactly label + records at the end.", 'C02': ' Round 5: buffer + real ByteWriter over the file model (no byte lost, duplicated or reordered on the way to the file).', 'C03': " Round 5: cast dtypes given with an explicit byte order (np.dtype('>f4')): slots are the cast values, most significant byte first.", 'C04': ' Round 5: the IDENT / OBNAME encoders (one-byte length and copy number for every length / copy 0..255, refusal beyond) are registered here as well.', 'C07': ' Round 5: OBNAME / OBJREF encoders over all origins, copies, name lengths (copy number one byte up to 255) registered here.', 'C08': ' Round 5: cast dtypes with an explicit byte order (slot bytes most significant first).', 'C09': ' Round 5: every add_* method of LogicalFile as the call before / after add_origin: FILE-HEADER, then the ORIGIN set, then the rest.', 'C10': ' Round 5: real BufferedOutput + real ByteWriter over the file model (prior file longer than the output, no file; truncation, append position, whole records after every close).', 'C11': ' Round 5: row counts up to 10**6 (symbolic; block-wise field fills modelled by the stub).', 'C12': ' Round 5: copy-number obligations (same name, origins equal at write time but different at creation) registered here: a write that returns has unique object identities.', 'C13': " Round 5: float64 index of integer-valued numbers or NaN (numpy NaN semantics in the value stub; tolerance in exact rationals): SPACING only for uniformly spaced rows, never NaN; signed narrow integer indices through numpy's promote_types.", 'C14': ' Round 5: naive date-times differing only in fold under a TZ rule with a clock set-back (F27 found, fixed); rejected calls as process history (the C20 obligations).', 'C16': ' Round 5: the segment contract (provenance of body ranges, successor flag) and the K2 loop step are registered here - payloads on their way through the segmenter; buffer + real ByteWriter over the file model.', 'C17': ' Round 5: a float index with a missing (NaN) sample is refused in the mode (F28 found, fixed).', 'C18': ' Round 5: two logical files whose origins share one ORIGIN set name (default or named), header identifiers different or equal: refused, never cross-contaminated.', 'C20': ' Round 5: first add_origin rejected for any of 9 reasons (file set number of a wrong type, unknown keyword, ...), valid origin under the same name afterwards: one origin, copy 0.'}
for _k, _v in _R5.items():
    CHECKS[_k]['text'] = CHECKS[_k]['text'] + _v

# obligations added after the sixth round of seeded changes
_R6 = {
    'C03': ' Round 6: no in-place operation reaches the caller\'s arrays on the way to the records (the C19 taint obligations; a second write of the same arrays is only faithful if the first left them alone); a chunk size below 1 is refused, never "no rows" (F29 found, fixed).',
    'C04': ' Round 6: real str texts of 1 .. 4096 (thorough 65536) characters +-1 through the write_struct dispatch (IDENT / ASCII) and write_struct_ident.',
    'C05': ' Round 6: real str texts at length thresholds through the dispatch (an IDENT-coded value of 128..255 characters keeps its one-byte length); IDENT length obligations registered here.',
    'C06': ' Round 6: real str texts at length thresholds through the dispatch.',
    'C08': ' Round 6: two channels on one data set - slot dtypes are compared up to same-size integer reinterpretation (not observable in the file).',
    'C09': ' Round 6: sets of one type are told apart by their ENCODED set component (set names None / empty / A / B over four add_* methods; F30 found, fixed); the order replay checks that all ORIGIN sets follow the header contiguously.',
    'C10': ' Round 6: non-positive input chunk sizes are refused or tile all rows (F29).',
    'C11': ' Round 6: sixth source kind - a structured array whose permuted fields all have one format (equal row layout; only the names tell the columns apart); the stub models dtype.fields / itemsize and structured view().',
    'C12': ' Round 6: long value lists up to 1025 (thorough 65537) elements with one element at the edges of SLONG / 2**32 / 2**40 / 2**63; real str texts at length thresholds; non-positive chunk sizes refused (F29).',
    'C14': ' Round 6: single-argument memos are offered tuples whose elements collide as keys ((10, 20) / (10.0, 20.0), (1,) / (True,), (0.0,) / (-0.0,)); the context obligation drives decorated functions calling decorated functions.',
    'C17': ' Round 6: decorated functions calling decorated functions (every level decorated, alternating with with-blocks, twice in a row); the three names assigned AFTER creation and encoded inside the mode (F31 found, fixed).',
    'C20': ' Round 6: the retry after a rejected add_channel(data=..., <invalid argument>) gets copy number 0 (checked by the file-level replay as well).',
}
for _k, _v in _R6.items():
    CHECKS[_k]['text'] = CHECKS[_k]['text'] + _v


NOT_APPLICABLE = []   # every property is decided by this technique; parts out of its reach are listed per check (level_note, DESIGN 4)

NOTES = ('All checks: ./vcheck <id> [--tier quick|thorough]. Exit 0 = no violation among everything decided '
         '(inconclusive obligations are listed in the evidence and on stdout), 1 = replay-confirmed violation, '
         '3 = machinery fault (nothing claimed).')
