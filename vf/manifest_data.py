"""What MANIFEST.json claims, per property.  Properties without a working check are listed under NOT_APPLICABLE
(with the reason) until their check lands."""

CHECKS = {
    'C01': dict(
        text='Bounded symbolic execution (CrossHair/z3, all paths) of the real segmenter, visible-record wrapper, '
             'record-length check and storage-unit-label encoder: for every even capacity 12..16376, every body length '
             'up to 3 (thorough 6) capacities + 30, both record kinds and every type byte the yielded segments satisfy '
             'the RP66 segment rules; label fields proved by digit arithmetic for every sequence number / record length.',
        note='Trusted: CrossHair model of CPython incl. struct.pack on ints; Rope/StructShim/LenStr stubs (validated each '
             'run); bodies are abstract (content is C04/C06). Longer bodies are outside the engine-A bound.'),
    'C15': dict(
        text='Same run as C01 with the assertion "no exception": every body length >= 1 and every capacity vrl-8 for an '
             'accepted vrl is segmented successfully; targeted witnesses for bodies < 12 bytes and capacities 12..22.',
        note='As C01. File-level confirmation of each witness through DLISFile.write and the strict reader.'),
}

CHECKS['C06'] = dict(
    smt=True,
    text='Each representation code the writer uses is executed symbolically on the real write_struct dispatch: the six '
         'fixed-width integer codes, UVARI and STATUS over ALL integers (in range => exact big-endian bytes, out of range '
         '=> exception), IDENT/ASCII with symbolic length (prefix form, rejection limits) and short fully symbolic text, '
         'OBNAME/OBJREF with symbolic origin/copy/name length, DTIME with symbolic calendar fields; UVARI additionally as '
         'LIA over Z and the DTIME millisecond rounding as an IEEE-754 query on z3 and cvc5.',
    note='FSINGL/FDOUBL values are delegated to struct.pack (only the format table is pinned); non-ASCII rejection is a '
         'call-site contract on .encode("ascii"); strings longer than 3 characters have abstract content.')
CHECKS['C01']['smt'] = True
CHECKS['C15']['smt'] = True

NOT_APPLICABLE = [
    {'property_id': p, 'reason': 'check under construction in this round (see DESIGN.md section 4); not claimed yet'}
    for p in ['C02', 'C03', 'C04', 'C05', 'C07', 'C08', 'C09', 'C10', 'C11', 'C12', 'C13', 'C14', 'C16', 'C17',
              'C18', 'C19', 'C20']
]

NOTES = ('All checks: ./vcheck <id> [--tier quick|thorough]. Exit 0 = no violation among everything decided '
         '(inconclusive obligations are listed in the evidence and on stdout), 1 = replay-confirmed violation, '
         '3 = machinery fault (nothing claimed).')
