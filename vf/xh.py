"""Driver around ``crosshair check`` that also measures what was explored.

Runs CrossHair's own CLI entry point in-process after wrapping two internals *for counting only*:
  * ``crosshair.core.attempt_call``  -> one call per explored path; its verification status is tallied;
  * ``z3.Solver.check``              -> number of SMT queries and wall time spent inside the solver.
The verdict lines printed are CrossHair's, unchanged.  A final line ``VFSTATS <json>`` carries the counters.

usage: python -m vf.xh <per_condition_timeout> <per_path_timeout|-> <module.function> [...]
"""
import json
import sys
import time


def main(argv):
    cond_t, path_t, targets = argv[0], argv[1], argv[2:]
    import z3
    import crosshair.core as core
    from crosshair.main import unwalled_main

    stats = {'paths': 0, 'status': {}, 'smt_queries': 0, 'smt_time_s': 0.0, 'smt_results': {}}

    orig_attempt = core.attempt_call

    def attempt_call(*a, **kw):
        stats['paths'] += 1
        try:
            r = orig_attempt(*a, **kw)
        except BaseException as e:  # path aborted (UnexploredPath / IgnoreAttempt / ...): tally and re-raise
            k = type(e).__name__
            stats['status'][k] = stats['status'].get(k, 0) + 1
            raise
        k = r.verification_status.name if r.verification_status is not None else 'NONE'
        stats['status'][k] = stats['status'].get(k, 0) + 1
        return r

    core.attempt_call = attempt_call

    orig_check = z3.Solver.check

    def check(self, *a):
        t0 = time.perf_counter()
        r = orig_check(self, *a)
        stats['smt_time_s'] += time.perf_counter() - t0
        stats['smt_queries'] += 1
        k = str(r)
        stats['smt_results'][k] = stats['smt_results'].get(k, 0) + 1
        return r

    z3.Solver.check = check

    args = ['check', '--report_all', '--per_condition_timeout', cond_t]
    if path_t != '-':
        args += ['--per_path_timeout', path_t]
    args += targets
    t0 = time.perf_counter()
    try:
        rc = unwalled_main(args)
    except SystemExit as e:
        rc = e.code
    stats['wall_s'] = round(time.perf_counter() - t0, 3)
    stats['smt_time_s'] = round(stats['smt_time_s'], 3)
    stats['rc'] = rc
    sys.stdout.flush()
    print('VFSTATS ' + json.dumps(stats))
    return 0


if __name__ == '__main__':
    sys.exit(main(sys.argv[1:]))
