"""A strict RP66 V1 reader written from the standard (independent of dliswriter and of dlisio).

Used by replays on real files produced by the unmodified package.  It enforces the rules listed in DESIGN 2.4 and
nothing beyond them.  Every failure raises StrictError(rule, message).
"""
import struct
from datetime import datetime, timezone


class StrictError(Exception):
    def __init__(self, rule, msg):
        super().__init__(f'{rule}: {msg}')
        self.rule = rule
        self.msg = msg


def _need(buf, pos, n, what):
    if pos + n > len(buf):
        raise StrictError('truncated', f'{what}: need {n} bytes at {pos}, have {len(buf) - pos}')


# ---------------------------------------------------------------------------------------------- primitive codes

CODE_NAMES = {1: 'FSHORT', 2: 'FSINGL', 3: 'FSING1', 4: 'FSING2', 5: 'ISINGL', 6: 'VSINGL', 7: 'FDOUBL', 8: 'FDOUB1',
              9: 'FDOUB2', 10: 'CSINGL', 11: 'CDOUBL', 12: 'SSHORT', 13: 'SNORM', 14: 'SLONG', 15: 'USHORT',
              16: 'UNORM', 17: 'ULONG', 18: 'UVARI', 19: 'IDENT', 20: 'ASCII', 21: 'DTIME', 22: 'ORIGIN',
              23: 'OBNAME', 24: 'OBJREF', 25: 'ATTREF', 26: 'STATUS', 27: 'UNITS'}
FIXED = {2: '>f', 7: '>d', 12: '>b', 13: '>h', 14: '>i', 15: '>B', 16: '>H', 17: '>I'}
CODE_SIZE = {2: 4, 7: 8, 12: 1, 13: 2, 14: 4, 15: 1, 16: 2, 17: 4}


def dec_uvari(buf, pos):
    _need(buf, pos, 1, 'UVARI')
    b0 = buf[pos]
    if b0 < 0x80:
        return b0, pos + 1
    if b0 < 0xC0:
        _need(buf, pos, 2, 'UVARI')
        return ((b0 & 0x3F) << 8) | buf[pos + 1], pos + 2
    _need(buf, pos, 4, 'UVARI')
    return ((b0 & 0x3F) << 24) | (buf[pos + 1] << 16) | (buf[pos + 2] << 8) | buf[pos + 3], pos + 4


def dec_ident(buf, pos, what='IDENT'):
    _need(buf, pos, 1, what)
    n = buf[pos]
    _need(buf, pos + 1, n, what)
    raw = buf[pos + 1:pos + 1 + n]
    if any(c > 127 for c in raw):
        raise StrictError('ident-non-ascii', f'{what} with non-ASCII bytes')
    return raw.decode('ascii'), pos + 1 + n


def dec_ascii(buf, pos):
    n, pos = dec_uvari(buf, pos)
    _need(buf, pos, n, 'ASCII')
    raw = buf[pos:pos + n]
    if any(c > 127 for c in raw):
        raise StrictError('ascii-non-ascii', 'ASCII value with bytes > 127')
    return raw.decode('ascii'), pos + n


def dec_obname(buf, pos):
    o, pos = dec_uvari(buf, pos)
    _need(buf, pos, 1, 'OBNAME copy')
    c = buf[pos]
    name, pos = dec_ident(buf, pos + 1, 'OBNAME name')
    return (o, c, name), pos


def dec_dtime(buf, pos):
    _need(buf, pos, 8, 'DTIME')
    y, tzm, d, h, mn, s, ms = struct.unpack('>BBBBBBH', buf[pos:pos + 8])
    tz, m = tzm >> 4, tzm & 15
    if tz > 2:
        raise StrictError('dtime-tz', f'time zone nibble {tz}')
    if not (1 <= m <= 12 and 1 <= d <= 31 and h <= 23 and mn <= 59 and s <= 59 and ms <= 999):
        raise StrictError('dtime-range', f'fields out of range: {(y, tz, m, d, h, mn, s, ms)}')
    return {'year': 1900 + y, 'tz': tz, 'month': m, 'day': d, 'hour': h, 'minute': mn, 'second': s, 'ms': ms}, pos + 8


def dtime_to_utc(d):
    if d['tz'] != 2:
        raise StrictError('dtime-tz', 'only GMT-coded values can be compared as instants')
    return datetime(d['year'], d['month'], d['day'], d['hour'], d['minute'], d['second'], d['ms'] * 1000,
                    tzinfo=timezone.utc)


def dec_value(code, buf, pos):
    if code in FIXED:
        n = CODE_SIZE[code]
        _need(buf, pos, n, CODE_NAMES[code])
        return struct.unpack(FIXED[code], buf[pos:pos + n])[0], pos + n
    if code == 18 or code == 22:
        return dec_uvari(buf, pos)
    if code == 19 or code == 27:
        return dec_ident(buf, pos, CODE_NAMES[code])
    if code == 20:
        return dec_ascii(buf, pos)
    if code == 21:
        return dec_dtime(buf, pos)
    if code == 23:
        return dec_obname(buf, pos)
    if code == 24:
        t, pos = dec_ident(buf, pos, 'OBJREF type')
        ob, pos = dec_obname(buf, pos)
        return (t,) + ob, pos
    if code == 26:
        _need(buf, pos, 1, 'STATUS')
        if buf[pos] not in (0, 1):
            raise StrictError('status-range', f'STATUS value {buf[pos]}')
        return buf[pos], pos + 1
    if code in CODE_NAMES:
        raise StrictError('code-unsupported', f'representation code {code} ({CODE_NAMES[code]}) not expected from this writer')
    raise StrictError('code-undefined', f'representation code {code} is not defined by RP66 V1')


# ---------------------------------------------------------------------------------------------- physical layout

class Segment:
    __slots__ = ('offset', 'length', 'attrs', 'type', 'body', 'pad', 'is_eflr', 'pred', 'succ', 'vr_index')


class Record:
    __slots__ = ('is_eflr', 'type', 'body', 'segments', 'offset', 'index')


def parse_sul(data):
    if len(data) < 80:
        raise StrictError('sul-length', f'file shorter than the 80-byte label ({len(data)})')
    lab = data[:80]
    if any(c > 127 for c in lab):
        raise StrictError('sul-ascii', 'label not ASCII')
    s = lab.decode('ascii')
    seq, ver, struc, mrl, ident = s[0:4], s[4:9], s[9:15], s[15:20], s[20:80]
    if not seq.strip().isdigit() or seq != seq.strip().rjust(4):
        raise StrictError('sul-seq', f'sequence number field {seq!r} not a right-justified integer')
    if ver != 'V1.00':
        raise StrictError('sul-version', repr(ver))
    if struc != 'RECORD':
        raise StrictError('sul-structure', repr(struc))
    if not mrl.strip().isdigit() or mrl != mrl.strip().rjust(5):
        raise StrictError('sul-mrl', f'maximum record length field {mrl!r}')
    m = int(mrl)
    if m != 0 and not (20 <= m <= 16384):
        raise StrictError('sul-mrl', f'maximum record length {m}')
    return {'sequence_number': int(seq), 'max_record_length': m, 'set_identifier': ident}


def parse_physical(data):
    """-> (sul, visible_records [(offset, length)], segments [Segment])."""
    sul = parse_sul(data)
    maxlen = sul['max_record_length'] or 16384
    pos = 80
    vrs = []
    segs = []
    while pos < len(data):
        if pos + 4 > len(data):
            raise StrictError('vr-truncated', f'{len(data) - pos} stray bytes at end of file (offset {pos})')
        vlen = (data[pos] << 8) | data[pos + 1]
        if data[pos + 2] != 0xFF or data[pos + 3] != 0x01:
            raise StrictError('vr-marker', f'visible record at {pos}: format bytes {data[pos+2]:02x}{data[pos+3]:02x}')
        if vlen % 2:
            raise StrictError('vr-odd', f'visible record at {pos}: odd length {vlen}')
        if vlen < 20:
            raise StrictError('vr-min', f'visible record at {pos}: length {vlen} < 20')
        if vlen > maxlen:
            raise StrictError('vr-max', f'visible record at {pos}: length {vlen} > label maximum {maxlen}')
        if pos + vlen > len(data):
            raise StrictError('vr-truncated', f'visible record at {pos}: length {vlen} runs past end of file')
        end = pos + vlen
        p = pos + 4
        while p < end:
            if p + 4 > end:
                raise StrictError('seg-truncated', f'segment header at {p} crosses visible record end {end}')
            slen = (data[p] << 8) | data[p + 1]
            attrs = data[p + 2]
            typ = data[p + 3]
            if slen % 2:
                raise StrictError('seg-odd', f'segment at {p}: odd length {slen}')
            if slen < 16:
                raise StrictError('seg-min', f'segment at {p}: length {slen} < 16')
            if p + slen > end:
                raise StrictError('seg-overrun', f'segment at {p}: length {slen} crosses visible record end {end}')
            if attrs & 0x10:
                raise StrictError('seg-encrypted', f'segment at {p}: encryption bit set')
            if attrs & 0x08:
                raise StrictError('seg-encpacket', f'segment at {p}: encryption packet bit set')
            if attrs & 0x04:
                raise StrictError('seg-checksum', f'segment at {p}: checksum bit set')
            if attrs & 0x02:
                raise StrictError('seg-trailing-length', f'segment at {p}: trailing length bit set')
            body_end = p + slen
            pad = 0
            if attrs & 0x01:
                pad = data[body_end - 1]
                if pad < 1 or pad > slen - 4:
                    raise StrictError('seg-padcount', f'segment at {p}: pad count {pad} (length {slen})')
            s = Segment()
            s.offset, s.length, s.attrs, s.type = p, slen, attrs, typ
            s.pad = pad
            s.body = data[p + 4:body_end - pad]
            s.is_eflr = bool(attrs & 0x80)
            s.pred = bool(attrs & 0x40)
            s.succ = bool(attrs & 0x20)
            s.vr_index = len(vrs)
            segs.append(s)
            p += slen
        vrs.append((pos, vlen))
        pos = end
    return sul, vrs, segs


def assemble(segs):
    """Segments -> logical records, enforcing first/last bracketing and constant kind/type."""
    recs = []
    cur = None
    for s in segs:
        if cur is None:
            if s.pred:
                raise StrictError('seg-bracket', f'segment at {s.offset}: predecessor bit on the first segment of a record')
            cur = Record()
            cur.is_eflr, cur.type, cur.body, cur.segments, cur.offset = s.is_eflr, s.type, bytearray(), [], s.offset
        else:
            if not s.pred:
                raise StrictError('seg-bracket', f'segment at {s.offset}: predecessor bit missing on a continuation')
            if s.is_eflr != cur.is_eflr or s.type != cur.type:
                raise StrictError('seg-kind', f'segment at {s.offset}: kind/type differs from the first segment')
        cur.body += s.body
        cur.segments.append(s)
        if not s.succ:
            cur.body = bytes(cur.body)
            cur.index = len(recs)
            recs.append(cur)
            cur = None
    if cur is not None:
        raise StrictError('seg-bracket', 'file ends inside a logical record (successor bit set on the last segment)')
    return recs


# ---------------------------------------------------------------------------------------------- EFLR grammar

class Attr:
    __slots__ = ('label', 'count', 'code', 'units', 'value', 'absent', 'has_value')

    def as_dict(self):
        return {'label': self.label, 'count': self.count, 'code': self.code, 'units': self.units,
                'value': self.value, 'absent': self.absent}


def _parse_attr_component(buf, pos, desc, template_attr):
    a = Attr()
    a.absent = False
    a.label = template_attr.label if template_attr else None
    a.count = template_attr.count if template_attr else 1
    a.code = template_attr.code if template_attr else 19
    a.units = template_attr.units if template_attr else None
    a.value = template_attr.value if template_attr else None
    a.has_value = False
    if desc & 0x10:
        a.label, pos = dec_ident(buf, pos, 'attribute label')
    if desc & 0x08:
        a.count, pos = dec_uvari(buf, pos)
    if desc & 0x04:
        _need(buf, pos, 1, 'attribute representation code')
        a.code = buf[pos]
        pos += 1
        if a.code not in CODE_NAMES:
            raise StrictError('code-undefined', f'attribute {a.label}: representation code {a.code}')
    if desc & 0x02:
        a.units, pos = dec_ident(buf, pos, 'attribute units')
    if desc & 0x01:
        if a.count == 0:
            raise StrictError('attr-count0-value', f'attribute {a.label}: count 0 but a value is announced')
        vals = []
        for _ in range(a.count):
            v, pos = dec_value(a.code, buf, pos)
            vals.append(v)
        a.value = vals
        a.has_value = True
    else:
        if desc & 0x08 and a.count == 0:
            a.value = None
    return a, pos


class EFLR:
    __slots__ = ('set_type', 'set_name', 'template', 'objects')


def parse_eflr(body):
    """-> EFLR; raises StrictError on any deviation from the component grammar; no bytes may be left over."""
    if len(body) == 0:
        raise StrictError('eflr-empty', 'explicitly formatted record with an empty body')
    pos = 0
    desc = body[0]
    role = desc >> 5
    if role not in (0b111, 0b110, 0b101):
        raise StrictError('eflr-set', f'first component descriptor {desc:#04x} is not a SET')
    if not desc & 0x10:
        raise StrictError('eflr-set', 'SET component without a type')
    if desc & 0x07:
        raise StrictError('eflr-set', f'SET descriptor {desc:#04x} has reserved bits set')
    pos = 1
    e = EFLR()
    e.set_type, pos = dec_ident(body, pos, 'set type')
    if not e.set_type:
        raise StrictError('eflr-set', 'empty set type')
    e.set_name = None
    if desc & 0x08:
        e.set_name, pos = dec_ident(body, pos, 'set name')
    e.template = []
    e.objects = []
    # template
    labels = set()
    while pos < len(body) and (body[pos] >> 5) in (0b001, 0b010):
        d = body[pos]
        a, pos = _parse_attr_component(body, pos + 1, d, None)
        if not d & 0x10 or not a.label:
            raise StrictError('template-label', 'template attribute without a (non-empty) label')
        if a.label in labels:
            raise StrictError('template-duplicate', f'label {a.label!r} twice in the template')
        labels.add(a.label)
        if not (d & 0x04):
            a.code = 19
        if not (d & 0x08):
            a.count = 1
        e.template.append(a)
    if pos >= len(body):
        raise StrictError('eflr-no-object', f'set {e.set_type}: no object component')
    while pos < len(body):
        d = body[pos]
        if (d >> 5) != 0b011:
            raise StrictError('eflr-object', f'expected an OBJECT component at {pos}, got descriptor {d:#04x}')
        if not d & 0x10:
            raise StrictError('eflr-object', 'OBJECT component without a name')
        if d & 0x0F:
            raise StrictError('eflr-object', f'OBJECT descriptor {d:#04x} has reserved bits set')
        ob, pos = dec_obname(body, pos + 1)
        attrs = []
        k = 0
        while pos < len(body) and (body[pos] >> 5) in (0b000, 0b001, 0b010):
            d = body[pos]
            if k >= len(e.template):
                raise StrictError('object-too-many', f'object {ob}: more attribute components than template entries')
            if (d >> 5) == 0b000:
                if d & 0x1F:
                    raise StrictError('absatr-bits', f'ABSATR descriptor {d:#04x} carries characteristics')
                a = Attr()
                a.label, a.count, a.code, a.units, a.value = e.template[k].label, None, None, None, None
                a.absent, a.has_value = True, False
                pos += 1
            else:
                if d & 0x10:
                    raise StrictError('object-attr-label', f'object {ob}: attribute component carries a label')
                a, pos = _parse_attr_component(body, pos + 1, d, e.template[k])
                if not a.has_value and a.count != 0:
                    raise StrictError('attr-count-without-value',
                                      f'object {ob}: attribute {a.label} announces count {a.count} and carries no value '
                                      f'(a value that is not there must be marked absent)')
            attrs.append(a)
            k += 1
        while k < len(e.template):
            t = e.template[k]
            a = Attr()
            a.label, a.count, a.code, a.units, a.value = t.label, t.count, t.code, t.units, t.value
            a.absent, a.has_value = False, False
            attrs.append(a)
            k += 1
        e.objects.append((ob, attrs))
    return e


# ---------------------------------------------------------------------------------------------- whole file

class LogicalFileView:
    __slots__ = ('header', 'eflrs', 'iflrs', 'records')


def parse_file(data):
    """Full strict parse: physical layout, record assembly, EFLR grammar for every explicit record,
    grouping into logical files (each starting with FILE-HEADER).  Returns dict."""
    sul, vrs, segs = parse_physical(data)
    recs = assemble(segs)
    lfs = []
    cur = None
    for r in recs:
        if r.is_eflr:
            e = parse_eflr(r.body)
            if e.set_type == 'FILE-HEADER':
                if r.type != 0:
                    raise StrictError('fhlr-type', f'FILE-HEADER set in a record of type {r.type}')
                cur = LogicalFileView()
                cur.header, cur.eflrs, cur.iflrs, cur.records = e, [], [], []
                lfs.append(cur)
            if cur is None:
                raise StrictError('lf-no-header', f'record {r.index} ({e.set_type}) precedes any FILE-HEADER')
            cur.eflrs.append((r, e))
            cur.records.append((r, e))
        else:
            if cur is None:
                raise StrictError('lf-no-header', f'IFLR {r.index} precedes any FILE-HEADER')
            if r.type not in (0, 1):
                raise StrictError('iflr-type', f'IFLR type {r.type}')
            ob, p = dec_obname(r.body, 0)
            cur.iflrs.append((r, ob, p))
            cur.records.append((r, None))
    return {'sul': sul, 'visible_records': vrs, 'segments': segs, 'records': recs, 'logical_files': lfs}


def attr_of(obj_attrs, label):
    for a in obj_attrs:
        if a.label == label:
            return a
    return None


def check_logical_file(lf):
    """C09/C07 rules on one logical file view.  Returns the list of rule violations (strings)."""
    errs = []
    hdr = lf.header
    if len(hdr.objects) != 1:
        errs.append(f'file-header: {len(hdr.objects)} objects')
    if [t.label for t in hdr.template] != ['SEQUENCE-NUMBER', 'ID']:
        errs.append(f'file-header template {[t.label for t in hdr.template]}')
    if len(lf.eflrs) < 2 or lf.eflrs[1][1].set_type != 'ORIGIN':
        errs.append('second record is not an ORIGIN set')
    seen = set()
    ids = {}
    first_iflr = min((r.index for r, _o, _p in lf.iflrs), default=None)
    origins = set()
    for r, e in lf.eflrs:
        key = (e.set_type, e.set_name)
        if key in seen:
            errs.append(f'set {key} appears twice')
        seen.add(key)
        if first_iflr is not None and r.index > first_iflr:
            errs.append(f'set {key} after the first IFLR')
        for ob, attrs in e.objects:
            ident = (e.set_type,) + ob
            if ident in ids:
                errs.append(f'duplicate object identity {ident}')
            ids[ident] = attrs
            if e.set_type == 'ORIGIN':
                origins.add(ob[0])
    for r, e in lf.eflrs:
        if e.set_type == 'FILE-HEADER':
            continue
        for ob, attrs in e.objects:
            if ob[0] not in origins:
                errs.append(f'object {(e.set_type,) + ob}: origin {ob[0]} is not an ORIGIN of this logical file')
    for r, ob, _p in lf.iflrs:
        t = 'FRAME' if r.type == 0 else 'NO-FORMAT'
        if (t,) + ob not in ids:
            errs.append(f'IFLR {r.index} refers to {(t,) + ob}, not defined in this logical file')
    return errs, ids
