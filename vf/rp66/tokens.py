"""Symbolic-friendly RP66 component parser over Rope token lists (DESIGN 2.4).

Tokens: ('b', value) one literal byte (value may be a symbolic int); ('src', name, a, b) the bytes [a, b) of an abstract
source (text of symbolic length); ('rep', value, count).  Pure integer arithmetic - no bit operators - so that CrossHair
never stalls on them.  Written from the standard, independent of dliswriter.

Every parse function returns None on a grammar violation (callers turn that into a rule number).
"""

FIXED_W = {2: 4, 7: 8, 12: 1, 13: 2, 14: 4, 15: 1, 16: 2, 17: 4, 26: 1}
DEFINED_CODES = tuple(range(1, 28))


class Cur:
    __slots__ = ('t', 'i')

    def __init__(self, tokens):
        self.t = tokens
        self.i = 0

    def done(self):
        return self.i >= len(self.t)

    def byte(self):
        if self.i >= len(self.t):
            return None
        tok = self.t[self.i]
        if tok[0] != 'b':
            return None
        self.i = self.i + 1
        return tok[1]

    def peek_byte(self):
        if self.i >= len(self.t):
            return None
        tok = self.t[self.i]
        if tok[0] != 'b':
            return None
        return tok[1]

    def text(self, n):
        """n characters: either n literal bytes -> ('lit', [values]) or one source range of length n -> ('src', name, a, b).
        n == 0 -> ('lit', [])."""
        if n == 0:
            return ('lit', [])
        if self.i >= len(self.t):
            return None
        tok = self.t[self.i]
        if tok[0] == 'src':
            if tok[3] - tok[2] != n:
                return None
            self.i = self.i + 1
            return tok
        vals = []
        for _ in range(n):
            v = self.byte()
            if v is None:
                return None
            vals.append(v)
        return ('lit', vals)

    def uvari(self):
        b0 = self.byte()
        if b0 is None:
            return None
        if b0 < 128:
            return b0
        if b0 < 192:
            b1 = self.byte()
            if b1 is None:
                return None
            return (b0 - 128) * 256 + b1
        b1 = self.byte()
        b2 = self.byte()
        b3 = self.byte()
        if b1 is None or b2 is None or b3 is None:
            return None
        return (b0 - 192) * 16777216 + b1 * 65536 + b2 * 256 + b3

    def ident(self):
        n = self.byte()
        if n is None:
            return None
        return self.text(n)

    def ascii(self):
        n = self.uvari()
        if n is None:
            return None
        return self.text(n)

    def obname(self):
        o = self.uvari()
        if o is None:
            return None
        c = self.byte()
        if c is None:
            return None
        nm = self.ident()
        if nm is None:
            return None
        return (o, c, nm)

    def fixed(self, w, signed):
        v = 0
        first = None
        for k in range(w):
            b = self.byte()
            if b is None:
                return None
            if k == 0:
                first = b
            v = v * 256 + b
        if signed and first >= 128:
            top = 1
            for _ in range(w):
                top = top * 256
            v = v - top
        return ('int', v)

    def value(self, code):
        if code in (15, 16, 17):
            return self.fixed(FIXED_W[code], False)
        if code in (12, 13, 14):
            return self.fixed(FIXED_W[code], True)
        if code in (2, 7):
            raw = []
            for _ in range(FIXED_W[code]):
                b = self.byte()
                if b is None:
                    return None
                raw.append(b)
            return ('float', raw)
        if code == 18 or code == 22:
            v = self.uvari()
            if v is None:
                return None
            return ('int', v)
        if code == 19 or code == 27:
            t = self.ident()
            if t is None:
                return None
            return ('ident', t)
        if code == 20:
            t = self.ascii()
            if t is None:
                return None
            return ('ascii', t)
        if code == 21:
            f = []
            for _ in range(8):
                b = self.byte()
                if b is None:
                    return None
                f.append(b)
            return ('dtime', f)
        if code == 23:
            o = self.obname()
            if o is None:
                return None
            return ('obname', o)
        if code == 24:
            t = self.ident()
            if t is None:
                return None
            o = self.obname()
            if o is None:
                return None
            return ('objref', t, o)
        if code == 26:
            b = self.byte()
            if b is None or (b != 0 and b != 1):
                return None
            return ('int', b)
        return None


def text_equals(t, s):
    """Does parsed text t equal the Python string s (literal characters) ?"""
    if t[0] != 'lit':
        return False
    if len(t[1]) != len(s):
        return False
    for i in range(len(s)):
        if t[1][i] != ord(s[i]):
            return False
    return True


def text_str(t):
    if t[0] == 'lit':
        return ''.join(chr(int(v)) for v in t[1])
    return f'<{t[1]}[{t[2]}:{t[3]}]>'


class PAttr:
    __slots__ = ('label', 'count', 'code', 'units', 'values', 'absent', 'has_count', 'has_code', 'has_value')


def attr_component(cur, d, in_template, tmpl):
    """Parse what follows an ATTRIB/INVATR descriptor d.  tmpl: the template's PAttr (None inside the template).
    Returns PAttr or None."""
    a = PAttr()
    a.absent = False
    a.label = tmpl.label if tmpl is not None else None
    a.count = tmpl.count if tmpl is not None else 1
    a.code = tmpl.code if tmpl is not None else 19
    a.units = tmpl.units if tmpl is not None else None
    a.values = tmpl.values if tmpl is not None else None
    f_label = d // 16 % 2
    f_count = d // 8 % 2
    f_code = d // 4 % 2
    f_units = d // 2 % 2
    f_value = d % 2
    a.has_count, a.has_code, a.has_value = f_count == 1, f_code == 1, f_value == 1
    if f_label == 1:
        t = cur.ident()
        if t is None:
            return None
        a.label = t
    if f_count == 1:
        c = cur.uvari()
        if c is None:
            return None
        a.count = c
    if f_code == 1:
        c = cur.byte()
        if c is None or c < 1 or c > 27:
            return None
        a.code = c
    if f_units == 1:
        t = cur.ident()
        if t is None:
            return None
        a.units = t
    if f_value == 1:
        if a.count == 0:
            return None                       # a value announced for a count of zero
        vals = []
        for _ in range(a.count):
            v = cur.value(a.code)
            if v is None:
                return None                   # announced and then omitted / malformed
            vals.append(v)
        a.values = vals
    return a


class PSet:
    __slots__ = ('type', 'name', 'template', 'objects')


def parse_eflr(tokens):
    """-> (PSet, 0) or (None, rule):
    1 SET descriptor; 2 set type / name; 3 template attribute; 4 duplicate or empty label; 5 no object;
    6 OBJECT descriptor / name; 7 more components than template entries; 8 attribute component malformed
    (incl. value announced and omitted, undefined code); 9 label inside an object; 10 ABSATR with characteristics;
    11 bytes left over / unknown role; 12 an object attribute component without a value whose count is not 0 (the value
    should have been marked absent)."""
    cur = Cur(tokens)
    d = cur.byte()
    if d is None or d // 32 != 7 or d // 16 % 2 != 1 or d % 8 != 0:
        return (None, 1)
    s = PSet()
    t = cur.ident()
    if t is None or (t[0] == 'lit' and len(t[1]) == 0):
        return (None, 2)
    s.type = t
    s.name = None
    if d // 8 % 2 == 1:
        t = cur.ident()
        if t is None:
            return (None, 2)
        s.name = t
    s.template = []
    s.objects = []
    while True:
        d = cur.peek_byte()
        if d is None or not (d // 32 == 1 or d // 32 == 2):
            break
        cur.byte()
        a = attr_component(cur, d, True, None)
        if a is None:
            return (None, 3)
        if d // 16 % 2 != 1 or a.label is None:
            return (None, 4)
        if a.label[0] == 'lit':
            if len(a.label[1]) == 0:
                return (None, 4)
            for prev in s.template:
                if prev.label[0] == 'lit' and prev.label[1] == a.label[1]:
                    return (None, 4)
        s.template.append(a)
    if cur.done():
        return (None, 5)
    while not cur.done():
        d = cur.byte()
        if d is None or d // 32 != 3 or d // 16 % 2 != 1 or d % 16 != 0:
            return (None, 6)
        ob = cur.obname()
        if ob is None:
            return (None, 6)
        attrs = []
        k = 0
        while True:
            d = cur.peek_byte()
            if d is None or d // 32 > 2:
                break
            cur.byte()
            if k >= len(s.template):
                return (None, 7)
            if d // 32 == 0:
                if d != 0:
                    return (None, 10)
                a = PAttr()
                a.label = s.template[k].label
                a.count, a.code, a.units, a.values = None, None, None, None
                a.absent, a.has_count, a.has_code, a.has_value = True, False, False, False
            else:
                if d // 16 % 2 == 1:
                    return (None, 9)
                a = attr_component(cur, d, False, s.template[k])
                if a is None:
                    return (None, 8)
                if not a.has_value and a.count != 0:
                    return (None, 12)      # a component that announces values (count) and carries none
            attrs.append(a)
            k = k + 1
        s.objects.append((ob, attrs))
    return (s, 0)
