#!/bin/bash
# usage: seed_suite.sh <seed dir names...>   - the repository's own test suite on a scratch export of /repo HEAD with the seed's patch
# env: PAR (parallel suites, default 5; more exhausts memory: DLISFile.write's default output chunk allocates 4 GiB)
cd "$(dirname "$0")"
PAR=${PAR:-5}
run_one() {
  s=$1
  tmp=$(mktemp -d /tmp/seedsuite_XXXX)
  git -C /repo archive HEAD | tar -x -C $tmp
  if ! (cd $tmp && patch -p1 -s < /verif/seeded/$s/patch.diff); then echo "$s PATCH-DOES-NOT-APPLY"; rm -rf $tmp; return; fi
  r=$(cd $tmp && PYTHONPATH=$tmp/src timeout 3000 /venv/bin/python -m pytest -q -p no:cacheprovider --timeout=900 -x 2>&1 | tail -1)
  echo "$s suite: $r"
  rm -rf $tmp
}
export -f run_one
printf '%s\n' "$@" | xargs -P $PAR -I{} bash -c 'run_one {}'
